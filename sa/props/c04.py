"""C04 - Grouping restores every local change; the stack stays balanced.

R4.1 push/pop pairing table (who may push/pop, net effect per normal exit,
     pop never below the entry level except in closers),
R4.2 copy-on-write of category tables,
R4.3 local/global insertion table,
R4.4 chained lookup / innermost-first alias lookup / frame matching of pop /
     method re-mapping after every push and pop."""
import ast
import re

from .. import absint as A
from .. import effects as E
from .. import flow
from .. import model as M
from ..report import AnalysisError, need
from ..util import SelfHooks, text

# function -> (allowed (net, minimum) pairs at normal exits, reason)
PAIRING = {
    'plasTeX.Macro.invoke': ({(-1, -1), (0, 0), (1, 0)}, 'END pops its frame, BEGIN pushes, a command pushes then pops'),
    'plasTeX.Environment.invoke': ({(-1, -1), (1, 0)}, 'END pops, BEGIN pushes'),
    'plasTeX.VerbatimEnvironment.invoke': ({(0, 0), (1, 0)}, 'push ... pop on each end pattern; +1 only when the input ends inside the environment'),
    'plasTeX.Base.TeX.Text.bgroup.invoke': ({(1, 0)}, 'opens a group'),
    'plasTeX.Base.TeX.Text.egroup.invoke': ({(-1, -1)}, 'closes a group'),
    'plasTeX.Base.TeX.Primitives.MathShift.invoke': ({(-1, -1), (1, 0)}, 'closing shift pops, opening shift pushes'),
    'plasTeX.Base.LaTeX.Math.BeginDisplayMath.invoke': ({(1, 0)}, r'\[ opens'),
    'plasTeX.Base.LaTeX.Math.EndDisplayMath.invoke': ({(-1, -1)}, r'\] closes'),
    'plasTeX.Base.LaTeX.Math.BeginMath.invoke': ({(0, 0), (1, 0)}, r'\( opens (0 when math is disabled by ifthen)'),
    'plasTeX.Base.LaTeX.Math.EndMath.invoke': ({(-1, -1), (0, 0)}, r'\) closes (0 when math is disabled by ifthen)'),
    'plasTeX.Base.LaTeX.Arrays.Array.CellDelimiter.invoke': ({(0, -1)}, 'pop then push: a fresh frame per cell'),
    'plasTeX.Base.LaTeX.Arrays.Array.EndRow.invoke': ({(0, -1)}, 'pop then push: a fresh frame per row'),
    'plasTeX.Base.LaTeX.Arrays.Array.invoke': ({(-1, -1), (1, 0)}, 'begin: cell frame on top of the environment frame; end: pop(self) removes table, row and cell'),
    'plasTeX.Base.LaTeX.Verbatim.verb.invoke': ({(0, 0)}, 'push, scan, pop'),
    'plasTeX.Packages.alltt.alltt.invoke': ({(0, 0)}, 'push, scan, pop'),
    'plasTeX.Packages.listings.lstinline.invoke': ({(0, 0)}, 'push, scan, pop'),
    'plasTeX.Packages.listings.lstlisting.invoke': ({(0, 0), (1, 0)}, 'as VerbatimEnvironment.invoke'),
    'plasTeX.Packages.natbib.bibliography.loadBibliographyFile': ({(0, 0)}, 'push, load, pop'),
    'plasTeX.TeX.TeX.createSubProcess': ({(1, 0)}, 'opens the argument frame'),
    'plasTeX.TeX.TeX.endSubProcess': ({(-1, -1), (0, 0)}, 'closes the argument frame if one was opened'),
    'plasTeX.TeX.TeX.expandTokens': ({(0, 0)}, 'createSubProcess ... endSubProcess'),
}


_CTX_ALIASES = {}


def ctx_aliases(fn_node):
    """Local names bound to the context object (ctx = self.ownerDocument.context)."""
    key = id(fn_node)
    if key not in _CTX_ALIASES:
        names = set()
        for x in M.walk_no_nested(fn_node):
            tgt = val = None
            if isinstance(x, ast.Assign) and len(x.targets) == 1:
                tgt, val = x.targets[0], x.value
            elif isinstance(x, ast.NamedExpr):
                tgt, val = x.target, x.value
            elif isinstance(x, ast.AnnAssign) and x.value is not None:
                tgt, val = x.target, x.value
            if isinstance(tgt, ast.Name) and isinstance(val, ast.Attribute) and val.attr == 'context':
                names.add(tgt.id)
            elif isinstance(tgt, ast.Name) and isinstance(val, ast.Assign):
                pass
            # chained:  self.top = c = ...  is not a context alias
        _CTX_ALIASES[key] = (names, fn_node)
    return _CTX_ALIASES[key][0]


_CUR_FN = [None]


def stack_op(call, fn_node=None):
    """'push' / 'pop' / None for a call node (context.push / context.append / createSubProcess; context.pop / endSubProcess),
    also through a local alias of the context object."""
    nm = M.call_name(call)
    fn_node = fn_node if fn_node is not None else _CUR_FN[0]
    if fn_node is not None and isinstance(call.func, ast.Attribute) and isinstance(call.func.value, ast.Name) \
       and call.func.value.id in ctx_aliases(fn_node):
        nm = 'context.' + call.func.attr
    if nm.endswith('context.push') or nm.endswith('context.append') or nm.endswith('createSubProcess'):
        return 'push'
    if nm.endswith('context.pop') or nm.endswith('endSubProcess'):
        return 'pop'
    return None


def pushpop_transfer(n, v):
    net, lo = v
    if isinstance(n, ast.Call):
        op = stack_op(n)
        if op == 'push':
            net += 1
        elif op == 'pop':
            net -= 1
    return (net, min(lo, net))


def is_pushpop(fn):
    return any(stack_op(c, fn.node) for c in M.calls_in(fn.node))


def function_refs(m, fn, expr, _depth=0, _seen=None):
    """Functions of the package that the value of `expr` (evaluated in `fn`) can be: names of functions, and the
    functions named in the class-level / module-level tables and the local variables the expression goes through."""
    out = []
    _seen = _seen if _seen is not None else set()
    if _depth > 4:
        return out
    scope_fn = fn

    def add_from(r, scope):
        if isinstance(r, M.FunctionInfo):
            if r not in out:
                out.append(r)
        elif isinstance(r, tuple) and r[0] == 'assign':
            for e in r[2]:
                if id(e) in _seen:
                    continue
                _seen.add(id(e))
                for f in function_refs(m, r[1], e, _depth + 1, _seen):
                    if f not in out:
                        out.append(f)
    for node in ast.walk(expr):
        if isinstance(node, ast.Name):
            if isinstance(scope_fn, M.FunctionInfo) and node.id in E._locals(scope_fn):
                # a local variable: what it was assigned from
                for x in M.walk_no_nested(scope_fn.node):
                    val = None
                    if isinstance(x, ast.Assign) and any(isinstance(t, ast.Name) and t.id == node.id for t in x.targets):
                        val = x.value
                    elif isinstance(x, ast.NamedExpr) and isinstance(x.target, ast.Name) and x.target.id == node.id:
                        val = x.value
                    if val is not None and id(val) not in _seen:
                        _seen.add(id(val))
                        for f in function_refs(m, scope_fn, val, _depth + 1, _seen):
                            if f not in out:
                                out.append(f)
                continue
            add_from(m.resolve_name(scope_fn, node.id), scope_fn)
        elif isinstance(node, ast.Attribute):
            if isinstance(node.value, ast.Name) and node.value.id in ('self', 'cls') and getattr(scope_fn, 'cls', None) is not None:
                add_from(m.getattr_static(scope_fn.cls, node.attr), scope_fn)
            else:
                try:
                    add_from(m.resolve_expr(scope_fn, node), scope_fn)
                except Exception:
                    pass
    return out


def is_indirect_call(m, fn, c):
    """A call whose callee is computed (a table lookup, a conditional, the result of another call, a local variable)."""
    f = c.func
    if isinstance(f, (ast.Call, ast.Subscript, ast.IfExp, ast.BoolOp, ast.NamedExpr, ast.Lambda)):
        return True
    if isinstance(f, ast.Name) and f.id in E._locals(fn):
        return True
    if isinstance(f, ast.Name) and f.id in ('getattr', 'attrgetter', 'methodcaller', 'partial', 'partialmethod', 'map', 'filter', 'reduce', 'starmap'):
        return True
    return False


def check(chk):
    m = chk.model
    r41(chk, m)
    r42(chk, m)
    r43(chk, m)
    r44(chk, m)
    chain_rules(chk, m, 'R4.6')
    from . import shared
    shared.cache_rules(chk, m, 'R4.5')
    from . import c02
    c02.r26(chk, m, rule_id='R4.7')       # a stored \end-part that grows by one } per use closes one more group each time
    r48(chk, m)
    from . import c05
    c05.r57(chk, m, rule_id='R4.9')       # category codes changed for the time of an argument are back in force after it
    chk.decline('that every concrete document leaves depth 1 (depends on the document being balanced)')


def r48(chk, m):
    from . import domheap as D
    R = chk.rule('R4.8', 'a sub-interpreter closes the context it opened: createSubProcess, interpreted, pushes one marker frame and hands '
                 'the marker to the new interpreter; endSubProcess on that interpreter pops exactly that marker (R4.1 counts the two calls as '
                 'push and pop on this ground)', 1)
    TeX = m.cls('plasTeX.TeX', 'TeX')
    cre, end = m.find_method(TeX, 'createSubProcess'), m.find_method(TeX, 'endSubProcess')
    need(cre is not None and end is not None, 'TeX.createSubProcess / endSubProcess not found')
    chk.analysed(cre)
    chk.analysed(end)

    class H(D.DomHooks):
        def call(self, interp, node, fname, args, kwargs, state):
            if fname in ('the.context.push', 'the.context.pop'):
                state.env['__ops'] = state.env.get('__ops', ()) + ((fname.rsplit('.', 1)[1], args[0] if args else None),)
                return A.NONE
            return D.DomHooks.call(self, interp, node, fname, args, kwargs, state)

    def run(fn, env):
        h = H(m, TeX)
        h.should_inline = lambda fname, node, info: True
        it = A.Interp(model=m, scope=fn, hooks=h, max_iter=4, exc_edges=False, inline=6, heap=True, precise_exc=True)
        outs = it.run_function(fn, env=env)
        if it.imprecise or it.unknown_branches:
            raise D.Imprecise('; '.join((list(it.imprecise) + list(it.unknown_branches))[:3]))
        return outs
    ctx = A.Obj('context', {'push': A.Sym('extfunc:the.context.push', truthy=True), 'pop': A.Sym('extfunc:the.context.pop', truthy=True)})
    doc = A.Obj('document', {'context': ctx})
    me = A.Obj('tex', {'ownerDocument': doc}, cls=TeX)
    try:
        got = set()
        for kind, s1, sub in run(cre, {'self': me}):
            ops1 = s1.env.get('__ops', ())
            if kind != 'return' or not isinstance(sub, A.Obj) or len(ops1) != 1 or ops1[0][0] != 'push' or not isinstance(ops1[0][1], A.Obj):
                got.add(('createSubProcess: %s, context operations %s' % (kind, [o[0] for o in ops1]),))
                continue
            marker = ops1[0][1]
            # (the constructor of TeX is not interpreted here: the document it was handed is its ownerDocument)
            sub.attrs['ownerDocument'] = s1.env['self'].attrs['ownerDocument']
            env2 = {k: v for k, v in s1.env.items() if k.startswith('__') and k != '__ops'}
            env2.update({'self': sub, '__marker': marker})
            for kind2, s2, v2 in run(end, env2):
                ops2 = s2.env.get('__ops', ())
                got.add((kind2, tuple('%s(%s)' % (o[0], 'the marker' if o[1] is s2.env['__marker'] else ('nothing' if o[1] is None else 'something else')) for o in ops2)))
        chk.decide(R, 'createSubProcess / endSubProcess', got, {('return', ('pop(the marker)',))},
                   'createSubProcess followed by endSubProcess on the interpreter it returned gives (outcome, context operations of endSubProcess) = %s; '
                   'expected one pop of the marker frame that createSubProcess pushed' % sorted(got, key=repr), chk.where(end))
    except (D.Imprecise, AnalysisError) as e:
        chk.undecided(R, 'createSubProcess / endSubProcess', str(e), chk.where(end))


def resolved_calls(m, fn):
    """(call node, FunctionInfo) for calls of fn that resolve statically: self.x() / cls.x() methods and module functions."""
    out = []
    for c in M.calls_in(fn.node):
        f = c.func
        callee = None
        if isinstance(f, ast.Attribute) and isinstance(f.value, ast.Name) and f.value.id in ('self', 'cls', 'tself') and fn.cls is not None:
            callee = m.find_method(fn.cls, f.attr)
        elif isinstance(f, ast.Name):
            r = m.resolve_name(fn, f.id)
            if isinstance(r, M.FunctionInfo) and r.cls is None:
                callee = r
        elif isinstance(f, ast.Attribute) and isinstance(f.value, (ast.Name, ast.Attribute)):
            root = f.value
            while isinstance(root, ast.Attribute):
                root = root.value
            if isinstance(root, ast.Name) and root.id not in E._locals(fn):
                r = m.resolve_expr(fn, f)            # ClassName.method(...) / module.function(...)
                if isinstance(r, M.FunctionInfo):
                    callee = r
        if callee is not None and callee is not fn:
            out.append((c, callee))
        elif callee is None and is_indirect_call(m, fn, c):
            # a computed callee: every function its expression can evaluate to
            for cal in function_refs(m, fn, f):
                if cal is not fn:
                    out.append((c, cal))
    return out


def pushpop_helpers(m):
    """Untabled functions that push/pop (directly or through such a function) and are only reached through statically
    resolved calls: name -> (FunctionInfo, callers).  Their effect is folded into their callers."""
    fns = [fn for fn in E.all_functions(m) if 'simpletal' not in fn.fullname]
    calls = {fn.fullname: resolved_calls(m, fn) for fn in fns}
    byname = {fn.fullname: fn for fn in fns}
    eff = {fn.fullname for fn in fns if is_pushpop(fn)}
    changed = True
    while changed:
        changed = False
        for fn in fns:
            if fn.fullname in eff:
                continue
            if any(cal.fullname in eff and cal.fullname not in PAIRING for c, cal in calls[fn.fullname]):
                eff.add(fn.fullname)
                changed = True
    helpers = {}
    for name in eff:
        if name in PAIRING:
            continue
        callers = sorted({fn.fullname for fn in fns for c, cal in calls[fn.fullname] if cal.fullname == name})
        if callers:
            helpers[name] = (byname[name], callers)
    return helpers, eff, byname, calls


class PairHooks(A.Hooks):
    """A recording context: context.push / context.pop / context.append (also reached as values: attrgetter('push')(context)) are
    counted per path; createElement gives a fresh node."""
    def __init__(self, model, cls):
        self.model, self.cls = model, cls

    def keep(self, ev):
        return False

    def call(self, interp, node, fname, args, kwargs, state):
        last = fname.rsplit('.', 1)[-1]
        if fname in ('context.push', 'context.append', 'context.pop') or (last in ('push', 'append', 'pop') and fname.endswith('context.' + last)) \
           or last in ('createSubProcess', 'endSubProcess'):
            # (a sub-interpreter opens a context of its own and closes it when it ends: counted like push / pop, as the structural rule does)
            net, lo = state.env.get('__pair', (0, 0))
            net += -1 if last in ('pop', 'endSubProcess') else 1
            state.env['__pair'] = (net, min(lo, net))
            return A.Sym('subprocess', truthy=True) if last == 'createSubProcess' else A.NONE
        if last == 'createElement':
            k = state.env.get('__made', 0)
            state.env['__made'] = k + 1
            return A.Obj('element%d' % k, {'macroMode': 0})
        if re.match(r'(\w+log|log|status)\.\w+$', fname):
            return A.NONE
        return None


def semantic_pairing(m, fn, follow=None):
    """(net, lowest) of context pushes and pops per path of `fn`, interpreted with a recording context; None when not determined."""
    import itertools
    flags = []
    if fn.cls is not None:
        for k in m.mro(fn.cls):
            if isinstance(k, M.ClassInfo):
                for nm in k.assigns:
                    if isinstance(m.class_const(k, nm), bool) and nm not in flags and any(
                            isinstance(x, ast.Attribute) and x.attr == nm for x in ast.walk(fn.node)):
                        flags.append(nm)          # a switch of the class that this function consults: both settings are interpreted
    result = set()
    for combo in itertools.product((False, True), repeat=min(len(flags), 3)):
        ctx = A.Obj('context', {'push': A.Sym('extfunc:context.push', truthy=True), 'pop': A.Sym('extfunc:context.pop', truthy=True),
                                'append': A.Sym('extfunc:context.append', truthy=True), 'top': A.Sym('frame')},
                    cls=m.cls('plasTeX.Context', 'Context'))        # (private helpers of Context - context managers - are interpreted on it)
        doc = A.Obj('document', {'context': ctx})
        me = A.Obj('macro', {'ownerDocument': doc}, cls=fn.cls) if fn.cls is not None else None
        h = PairHooks(m, fn.cls)
        h.should_inline = (lambda fname, node, info: A.private_only(fname, node, info) or follow(fname, node, info)) if follow else A.private_only
        it = A.Interp(model=m, scope=fn, hooks=h, max_iter=2, exc_edges=False, inline=4, heap=True, precise_exc=True, max_states=4000)
        env = {'tex': A.Sym('tex', truthy=True)}
        if me is not None:
            env['self'] = me
            me.attrs.update(dict(zip(flags, combo)))
        try:
            outs = it.run_function(fn, env=env)
        except AnalysisError:
            return None
        if it.imprecise:
            return None
        result |= {s2.env.get('__pair', (0, 0)) for kind, s2, v in outs if kind in ('return', 'fall')}
    return result


def r41(chk, m):
    R = chk.rule('R4.1', 'context push/pop pairing table: only tabled functions (and private helpers reached only from them, '
                 'whose effect is folded into the caller) push/pop; at every normal exit the net effect and the lowest '
                 'intermediate level are those of the table', 21)
    helpers, eff, byname, calls = pushpop_helpers(m)
    summaries = {}

    def summary(name, stack=()):
        if name in summaries:
            return summaries[name]
        need(name not in stack, 'recursive push/pop helpers: %s' % (stack + (name,),))
        fn = byname[name]
        normal, raised = flow.function_exits(fn.node, (0, 0), transfer_for(fn, stack + (name,)))
        summaries[name] = frozenset(normal)
        return summaries[name]

    def transfer_for(fn, stack=()):
        sites = {}
        for c, cal in calls[fn.fullname]:
            sites.setdefault(id(c), []).append(cal.fullname)
        sites = {k: v for k, v in sites.items() if any(x in helpers for x in v)}

        def transfer(n, v):
            _CUR_FN[0] = fn.node
            if isinstance(n, ast.Call) and id(n) in sites:
                net, lo = v
                effs = set()
                for name in sites[id(n)]:
                    effs |= set(summary(name, stack)) if name in helpers else {(0, 0)}     # (one of several possible callees)
                return flow.Multi({(net + dn, min(lo, net + dlo)) for dn, dlo in effs})
            return pushpop_transfer(n, v)
        return transfer

    def indirection(name, _seen=None):
        """Computed callees in `name` or in the helpers it calls that the structural rule cannot follow."""
        _seen = _seen if _seen is not None else set()
        if name in _seen or name not in byname:
            return []
        _seen.add(name)
        fn = byname[name]
        resolved = {id(c) for c, cal in calls[name]}
        out = ['%s (line %s)' % (text(c.func)[:50], c.lineno) for c in M.calls_in(fn.node) if is_indirect_call(m, fn, c) and id(c) not in resolved]
        for c, cal in calls[name]:
            if cal.fullname not in PAIRING:
                out += indirection(cal.fullname, _seen)
        return out

    def by_value_refs(name):
        """Places where the function `name` is mentioned without being called."""
        short = name.rsplit('.', 1)[-1]
        out = []
        for mod in m.modules.values():
            called = {id(c.func) for c in ast.walk(mod.tree) if isinstance(c, ast.Call)}
            for x in ast.walk(mod.tree):
                if id(x) in called:
                    continue
                if (isinstance(x, ast.Name) and x.id == short and isinstance(x.ctx, ast.Load)) or (isinstance(x, ast.Attribute) and x.attr == short and isinstance(x.ctx, ast.Load)):
                    out.append('%s:%s' % (mod.name, x.lineno))
                elif isinstance(x, ast.Constant) and x.value == short:
                    out.append('%s:%s (as a string)' % (mod.name, x.lineno))
        return out
    for name in sorted(eff):
        fn = byname[name]
        chk.analysed(fn)
        chk.call_sites += sum(1 for c in M.calls_in(fn.node) if re.search(r'context\.(push|pop|append)$|SubProcess$', M.call_name(c)))
        if name in helpers:
            hf, callers = helpers[name]
            bad = [c for c in callers if c not in PAIRING and c not in helpers]
            chk.verdict(R, 'helper: %s' % name, not bad,
                        '%s pushes/pops the context stack for %s, which is not in the pairing table' % (name, bad), chk.where(fn),
                        'effect %s folded into %s' % (sorted(summary(name)), callers))
            continue
        normal, raised = flow.function_exits(fn.node, (0, 0), transfer_for(fn))
        ent = PAIRING.get(name)
        if ent is None:
            refs = by_value_refs(name)
            if refs:
                chk.undecided(R, 'untabled: %s' % name, '%s pushes/pops the context stack and is handed around as a value (%s): who calls it is not '
                              'determined by the structural rule' % (name, ', '.join(refs[:3])), chk.where(fn))
                continue
            chk.fail(R, 'untabled: %s' % name,
                     '%s pushes/pops the context stack (net/min at exits %s) but is not in the pairing table and nothing in the '
                     'package calls it through a resolvable name: every push/pop site must be paired by construction'
                     % (name, sorted(normal)), chk.where(fn))
            continue
        allowed, why = ent
        extra = sorted(set(normal) - allowed)
        missing = sorted(allowed - set(normal))
        sem = None
        if extra or missing:
            sem = semantic_pairing(m, fn)
            A.IMPRECISION[:] = []
            if sem is not None and sem == allowed:
                chk.ok(R, name, '%s (interpreted with a recording context): %s' % (sorted(sem), why))
                continue
        if (extra or missing) and sem is not None:
            # interpreted with a recording context, all callees followed: the effect is determined and differs from the table
            chk.fail(R, name, '%s: (net, lowest) at normal exits, interpreted with a recording context, is %s, table requires %s (%s); the frame '
                     'opened here is not closed/the closer no longer pops' % (name, sorted(sem), sorted(allowed), why), chk.where(fn))
            continue
        if (extra or missing) and indirection(name):
            chk.undecided(R, name, '%s calls through computed callees (%s): its effect on the context stack is not determined by the structural rule'
                          % (name, '; '.join(indirection(name)[:3])), chk.where(fn))
            continue
        chk.verdict(R, name, not extra and not missing,
                    '%s: (net, lowest) at normal exits is %s, table requires %s (%s)%s'
                    % (name, sorted(normal), sorted(allowed), why,
                       '; the frame opened here is not closed/the closer no longer pops' if extra or missing else ''),
                    chk.where(fn), '%s: %s' % (sorted(normal), why))
    missing = sorted(set(PAIRING) - eff)
    for name in missing:
        sem = semantic_pairing(m, byname[name]) if name in byname else None
        A.IMPRECISION[:] = []
        if sem is not None and sem == PAIRING[name][0]:
            chk.ok(R, name, '%s (interpreted with a recording context): %s' % (sorted(sem), PAIRING[name][1]))
            continue
        if indirection(name):
            chk.undecided(R, name, '%s calls through computed callees (%s): whether it still opens/closes its group is not determined by the '
                          'structural rule' % (name, '; '.join(indirection(name)[:3])), name)
            continue
        chk.fail(R, name, '%s is in the pairing table but no longer pushes or pops the context stack (its group is not opened/closed)' % name, name)
    # mode-specific: Macro.invoke / Environment.invoke / Array.invoke
    Macro = m.cls('plasTeX', 'Macro')
    want = {'plasTeX.Macro.invoke': {'MODE_END': {(-1, -1)}, 'MODE_BEGIN': {(1, 0)}, 'MODE_NONE': {(0, 0)}},
            'plasTeX.Environment.invoke': {'MODE_END': {(-1, -1)}, 'MODE_BEGIN': {(1, 0)}, 'MODE_NONE': {(1, 0)}},
            'plasTeX.Base.LaTeX.Arrays.Array.invoke': {'MODE_END': {(-1, -1)}, 'MODE_BEGIN': {(1, 0)}}}
    R2 = chk.rule('R4.1m', 'per macro mode: END pops exactly its frame, BEGIN leaves exactly one frame open, a plain command is neutral', 8)
    for full, modes in want.items():
        mod, q = full.rsplit('.', 2)[0], '.'.join(full.rsplit('.', 2)[1:])
        if full.startswith('plasTeX.Base.LaTeX.Arrays'):
            mod, q = 'plasTeX.Base.LaTeX.Arrays', 'Array.invoke'
        elif full == 'plasTeX.Macro.invoke':
            mod, q = 'plasTeX', 'Macro.invoke'
        else:
            mod, q = 'plasTeX', 'Environment.invoke'
        fn = m.func(mod, q)
        for mode, exp in modes.items():
            h = SelfHooks(m, fn.cls)
            h.keep = lambda ev: ev[0] == 'call'
            h.should_inline = lambda fname, node, info: info is not None and info.fullname in helpers
            it = A.Interp(model=m, scope=fn, hooks=h, max_iter=1, exc_edges=False, inline=3, heap=True)
            outs = it.run_function(fn, env={'self.macroMode': m.class_const(Macro, mode)})
            chk.paths += len(outs)
            got = set()
            for kind, s, v in outs:
                if kind != 'return':
                    continue
                net = lo = 0
                for ev in s.trace:
                    if re.search(r'context\.(push|append)$', ev[1]):
                        net += 1
                    elif ev[1].endswith('context.pop'):
                        net -= 1
                    lo = min(lo, net)
                got.add((net, lo))
            dispatch = [u for u in it.unknown_branches if 'macroMode' in u or 'MODE_' in u or 'plan' in u.lower() or 'callee' in u]
            if got != exp and got > exp and dispatch:
                # the mode dispatch itself was not followed: the other modes' paths are mixed in
                A.IMPRECISION[:] = []
                chk.undecided(R2, '%s [%s]' % (full, mode), 'the dispatch on the macro mode is not determined: %s' % '; '.join(sorted(set(dispatch))[:3]), chk.where(fn))
                continue
            A.IMPRECISION[:] = []
            chk.verdict(R2, '%s [%s]' % (full, mode), got == exp,
                        '%s with macroMode %s: (net, lowest) = %s, expected %s' % (full, mode, sorted(got), sorted(exp)),
                        chk.where(fn), str(sorted(got)))


COPY_RX = re.compile(r'^(.+)\[:\]$|^list\((.+)\)$|^(.+)\.copy\(\)$|^copy\.copy\((.+)\)$|^copy\((.+)\)$')


def is_copy_expr(e):
    return COPY_RX.match(text(e)) is not None


TABLE = ['esc', '{', '}', '$', '&', 'eol', '#', '^', '_', ' ', 'abc', 'ABC', '', '~', '%', 'del']


def ctx_heap(m, nframes=2, sharing=None, table=None):
    """A small heap for interpreting Context methods: `self` with `nframes` frames.  `sharing` names the category
    table of each frame (equal letters = the same list object); default: all frames share one table."""
    sharing = sharing or 'S' * nframes
    tables = {}
    for k in sharing:
        tables.setdefault(k, list(table or TABLE))
    frames = [A.Obj('frame%d' % i, {'categories': tables[sharing[i]], 'obj': None, 'lets': {}}) for i in range(nframes)]
    for i in range(1, nframes):
        frames[i].attrs['parent'] = frames[i - 1]
    this = A.Obj('context', {'contexts': frames, 'categories': frames[-1].attrs['categories'], 'top': frames[-1], 'depth': nframes},
                 cls=m.cls('plasTeX.Context', 'Context'))
    return {'self': this, '__shared': frames[-1].attrs['categories'], '__orig': tuple(table or TABLE), '__frames': list(frames),
            '__outer': [f.attrs['categories'] for f in frames[:-1]]}


class TableHooks(SelfHooks):
    """Module-level category tables are kept in the state so that identity and in-place edits are visible."""
    def lookup(self, interp, name, state):
        if name in ('DEFAULT_CATEGORIES', 'VERBATIM_CATEGORIES'):
            key = '__mod_' + name
            if key not in state.env:
                fn = interp.scope
                r = self.model.resolve_name(fn, name)
                v = interp._from_model(r)
                need(isinstance(v, list) and len(v) == 16, '%s is not a 16-entry table' % name)
                state.env[key] = list(v)
                state.env[key + '_orig'] = tuple(v)
            return state.env[key]
        return SelfHooks.lookup(self, interp, name, state)


def cow_outcomes(m, fn, env_extra, nframes=2, sharing=None, table=None):
    """Interpret a Context method on the small heap; per normal exit report which invariants hold."""
    h = TableHooks(m, m.cls('plasTeX.Context', 'Context'))
    h.keep = lambda ev: False
    it = A.Interp(model=m, scope=fn, hooks=h, max_iter=20, exc_edges=False, inline=1)
    env = ctx_heap(m, nframes, sharing, table)
    env.update(env_extra)
    outs = it.run_function(fn, env=env)
    res = []
    for kind, s, v in outs:
        if kind != 'return':
            continue
        e = s.env
        this, frames = e['self'], e['__frames']
        problems = []
        if any(tuple(t) != e['__orig'] for t in e['__outer']):
            problems.append('edits a table that an enclosing frame still uses in place')
        for k in ('DEFAULT_CATEGORIES', 'VERBATIM_CATEGORIES'):
            if '__mod_' + k in e and tuple(e['__mod_' + k]) != e['__mod_%s_orig' % k]:
                problems.append('edits the module-level table %s in place' % k)
        cur = this.attrs.get('categories')
        inner = frames[-1].attrs.get('categories')
        if cur is not inner:
            problems.append('leaves context.categories and the innermost frame with different tables')
        for f, t in zip(frames[:-1], e['__outer']):
            if f.attrs.get('categories') is not t:
                problems.append('replaces the table of an enclosing frame')
        res.append((problems, cur, s))
    return res


def catcode_tables(m, code, char='x'):
    """Tables in force after Context.catcode(char, code) on a heap whose shared table has `char` in two classes;
    list of 16-tuples (or None when not determined)."""
    fn = m.find_method(m.cls('plasTeX.Context', 'Context'), 'catcode')
    need(fn is not None, 'Context.catcode not found')
    out = []
    for ps, cur, s in cow_outcomes(m, fn, {'char': char, 'code': code}, 2, 'GS', table=[t + (char if i in (0, 3, 11, 15) else '') for i, t in enumerate(TABLE)]):
        out.append(tuple(cur) if isinstance(cur, list) and all(isinstance(x, str) for x in cur) else None)
    return out


def verbatim_tables(m):
    fn = m.find_method(m.cls('plasTeX.Context', 'Context'), 'setVerbatimCatcodes')
    need(fn is not None, 'Context.setVerbatimCatcodes not found')
    out = []
    for ps, cur, s in cow_outcomes(m, fn, {}, 2, 'GS'):
        out.append((list(cur) if isinstance(cur, list) else None, s.env.get('__mod_VERBATIM_CATEGORIES_orig')))
    return out


def r42(chk, m, rule_id='R4.2'):
    R = chk.rule(rule_id, 'category tables are copy-on-write: a function that changes category codes never edits a table that '
                 'enclosing frames (or the module defaults) can see, installs the new table in the innermost frame, and keeps '
                 'context.categories identical to that frame\'s table', 3)
    # (a) Context methods that change the table: decided on a small heap by abstract interpretation
    CASES = {'catcode': {'char': 'x', 'code': 11}, 'setVerbatimCatcodes': {}}
    Context = m.cls('plasTeX.Context', 'Context')
    for name, extra in CASES.items():
        fn = m.find_method(Context, name)
        need(fn is not None, 'Context.%s not found' % name)
        chk.analysed(fn)
        res = []
        for nfr, sharing in ((1, 'G'), (2, 'GG'), (3, 'GSS'), (3, 'GST'), (3, 'GGG')):
            res += cow_outcomes(m, fn, extra, nfr, sharing)
        need(res, 'Context.%s has no normal exit' % name)
        chk.paths += len(res)
        problems = sorted({p for ps, cur, s in res for p in ps})
        undetermined = [1 for ps, cur, s in res if not isinstance(cur, list)]
        key = '%s :: stores into a category table' % fn.fullname if name == 'catcode' else '%s :: use of VERBATIM_CATEGORIES' % fn.fullname
        if undetermined and not problems:
            chk.undecided(R, key, 'the table installed by Context.%s is not determined by the abstract interpretation' % name, chk.where(fn))
            continue
        chk.verdict(R, key, not problems,
                    'Context.%s %s: the change leaks out of the group (createContext shares the table with the enclosing frames)'
                    % (name, '; '.join(problems)), chk.where(fn), 'copy-on-write on %d path(s)' % len(res))
    # (b) any other function that stores into a category table: path rule (store dominated by copy + install)
    n_sites = 0
    for fn in E.all_functions(m):
        if 'simpletal' in fn.fullname or (fn.cls is Context and fn.name in CASES):
            continue
        stores = []
        for n in M.walk_no_nested(fn.node):
            tgts = []
            if isinstance(n, ast.Assign):
                tgts = n.targets
            elif isinstance(n, ast.AugAssign):
                tgts = [n.target]
            for t in tgts:
                if isinstance(t, ast.Subscript) and cat_alias(fn, t.value):
                    stores.append((n, t))
            if isinstance(n, ast.Call) and isinstance(n.func, ast.Attribute) and n.func.attr in E.MUTATORS and cat_alias(fn, n.func.value):
                stores.append((n, n.func.value))
        if not stores:
            continue
        chk.analysed(fn)
        if fn.cls is Context:
            # a helper of the Context class: decided through its callers above when they are interpreted with inlining
            res = cow_outcomes(m, fn, {a.arg: A.TOP for a in fn.node.args.args[1:]})
            problems = sorted({p for ps, cur, s in res for p in ps if 'in place' in p})
            chk.verdict(R, '%s :: stores into a category table' % fn.fullname, not problems,
                        '%s %s' % (fn.fullname, '; '.join(problems)), chk.where(fn, stores[0][0]))
            continue
        params = {a.arg for a in fn.node.args.posonlyargs + fn.node.args.args + fn.node.args.kwonlyargs} - {'self', 'cls'}

        def root_name(e):
            while isinstance(e, (ast.Subscript, ast.Attribute)):
                e = e.value
            return e.id if isinstance(e, ast.Name) else None
        # locals that only ever alias a parameter (c = categories) stand for it
        for _ in range(3):
            for x in M.walk_no_nested(fn.node):
                if isinstance(x, ast.Assign) and len(x.targets) == 1 and isinstance(x.targets[0], ast.Name) and isinstance(x.value, ast.Name) \
                   and x.value.id in params:
                    others = [y for y in M.walk_no_nested(fn.node) if isinstance(y, ast.Name) and isinstance(y.ctx, ast.Store) and y.id == x.targets[0].id]
                    if len(others) == 1:
                        params.add(x.targets[0].id)
        if all(root_name(t) in params for n_, t in stores):
            # the table is handed in: whether it is a private copy is the caller's business
            callers = [(f2, c) for f2 in E.all_functions(m) if 'simpletal' not in f2.fullname for c, cal in resolved_calls(m, f2) if cal is fn]
            foreign = sorted({f2.fullname for f2, c in callers if not (f2.cls is Context and f2.name in CASES)})
            if not foreign:
                chk.ok(R, '%s :: stores into a category table' % fn.fullname,
                       'edits the table it is given; called only from %s, which are interpreted on the heap above'
                       % (sorted({f2.fullname for f2, c in callers}) or 'nowhere'))
            else:
                chk.undecided(R, '%s :: stores into a category table' % fn.fullname,
                              '%s edits a category table handed in by %s: whether that table is a private copy there is not decided by this rule'
                              % (fn.fullname, foreign), chk.where(fn, stores[0][0]))
            continue
        store_nodes = {id(n) for n, t in stores}

        def transfer(n, v, fn=fn):
            fresh, installed, bad = v
            if isinstance(n, ast.Assign) and is_copy_expr(n.value) and 'categories' in text(n.value):
                tg = [text(t) for t in n.targets]
                if any(cat_alias_text(fn, t) for t in tg):
                    fresh = True
                    installed = any(re.search(r'contexts\[-1\]\.categories$|\.top\.categories$', t) for t in tg)
            if id(n) in store_nodes and not (fresh and installed):
                bad = True
            return (fresh, installed, bad)
        normal, raised = flow.function_exits(fn.node, (False, False, False), transfer)
        bad = any(v[2] for v in normal | raised)
        chk.verdict(R, '%s :: stores into a category table' % fn.fullname, not bad and bool(normal),
                    '%s writes an element of a category table that is not, on every path, a fresh copy installed in the '
                    'innermost frame: the table is shared with the enclosing frames (createContext shares it), so the '
                    'change leaks out of the group' % fn.fullname, chk.where(fn, stores[0][0]),
                    '%d store(s) dominated by copy+install' % len(stores))
    # (c) the global frame starts from a private copy of the defaults
    cc = m.func('plasTeX.Context', 'Context.createContext')
    shares = any(isinstance(n, ast.Assign) and text(n.targets[0]).endswith('.categories') and text(n.value) == 'self.categories'
                 for n in M.walk_no_nested(cc.node))
    chk.note('createContext %s the parent table' % ('shares' if shares else 'copies'))
    uses = [(fn, n) for fn in E.all_functions(m) for n in M.walk_no_nested(fn.node)
            if isinstance(n, ast.Name) and n.id == 'DEFAULT_CATEGORIES' and isinstance(n.ctx, ast.Load)]
    need(uses, 'DEFAULT_CATEGORIES is not used anywhere: anchor moved')
    for fn, n in uses:
        chk.analysed(fn)
        parent = enclosing_expr(fn.node, n)
        stored_elem = parent is not None and isinstance(parent, ast.Subscript) and isinstance(getattr(parent, 'ctx', None), ast.Store)
        chk.verdict(R, '%s :: use of DEFAULT_CATEGORIES' % fn.fullname, not stored_elem,
                    '%s stores into the module-level default table' % fn.fullname, chk.where(fn, n))


def cat_alias_text(fn, t):
    return t.endswith('categories') or t in _aliases(fn)


def cat_alias(fn, expr):
    return cat_alias_text(fn, text(expr))


_AL = {}


def _aliases(fn):
    if fn not in _AL:
        names = set()
        for n in M.walk_no_nested(fn.node):
            if isinstance(n, ast.Assign):
                tg = [text(t) for t in n.targets]
                src = text(n.value)
                if any(t.endswith('categories') for t in tg) or re.search(r'categories(\[:\]|\.copy\(\))?$', src) or \
                   re.fullmatch(r'list\(.*categories\)', src):
                    for t in n.targets:
                        if isinstance(t, ast.Name):
                            names.add(t.id)
        _AL[fn] = names
    return _AL[fn]


def enclosing_expr(root, node):
    """Smallest enclosing Subscript/Call expression of a Name node."""
    best = None
    for n in ast.walk(root):
        if isinstance(n, (ast.Subscript, ast.Call)):
            inner = n.value if isinstance(n, ast.Subscript) else None
            if isinstance(n, ast.Subscript) and n.value is node:
                return n
            if isinstance(n, ast.Call) and node in n.args:
                return n
            if isinstance(n, ast.Call) and isinstance(n.func, ast.Attribute) and n.func.value is node:
                return n
    return best


class RegHooks(TableHooks):
    def call(self, interp, node, fname, args, kwargs, state):
        if fname == 'macroName' and len(args) == 1:
            n = state.env.get('__n', 0)
            state.env['__n'] = n + 1
            return 'macro%d' % n
        if fname == 'ismacro':
            return True
        if fname == 'isinstance' and len(args) == 2 and text(node.args[1]) == 'str':
            return isinstance(args[0], str)
        if fname == 'issubclass' and len(args) == 2 and isinstance(args[0], A.Obj) and '__bases' in args[0].attrs and isinstance(args[1], M.ClassInfo):
            return args[1].name in args[0].attrs['__bases']          # a class object of the scenario (an earlier \\def)
        return TableHooks.call(self, interp, node, fname, args, kwargs, state)


def registrations(m, fn, extra, nframes=3, inline=3, hooks_cls=None):
    """Interpret a Context method on a heap of `nframes` frames; per normal exit the set of frames (index from the
    bottom, -1 = innermost) that received a macro or a \\let."""
    Context = m.cls('plasTeX.Context', 'Context')
    h = (hooks_cls or RegHooks)(m, Context)
    h.keep = lambda ev: False
    it = A.Interp(model=m, scope=fn, hooks=h, max_iter=3, exc_edges=False, inline=inline, heap=True, precise_exc=True)
    env = ctx_heap(m, nframes)
    for f in env['__frames']:
        f.attrs['__items'] = {}
    env['self'].attrs.update({'counters': {}, 'writes': {}, '__items': None})
    env.update(extra)
    res = set()
    for kind, s2, v in it.run_function(fn, env=env):
        if kind != 'return':
            continue
        frames = s2.env['__frames']
        hit = []
        for i, f in enumerate(frames):
            if f.attrs.get('__items') or f.attrs.get('lets'):
                hit.append(-1 if i == len(frames) - 1 else i)
        res.add(tuple(hit))
    return res


def r43(chk, m, rule_id='R4.3'):
    R = chk.rule(rule_id, 'local/global insertion table (frames on a small heap, abstract interpretation): addLocal -> innermost '
                 'frame, addGlobal -> frame 0, let -> innermost frame, newcounter/newif/newcount/newdimen/newskip/newmuskip/'
                 'newcommand/newenvironment/chardef -> frame 0 only, newdef(local) -> innermost / frame 0 by flag; def/edef local, '
                 'gdef/xdef global', 16)
    Context = m.cls('plasTeX.Context', 'Context')
    MAC = A.Sym('a-macro', truthy=True)
    ESC = A.Obj('src', {'catcode': 0, 'nodeName': 's'})
    OTH = A.Obj('src', {'catcode': 12, 'nodeName': 's'})
    DEST = A.Obj('dest', {'nodeName': 'd'})
    table = [('addLocal', {'key': 'k', 'value': MAC}, {(-1,)}, 'the innermost frame'),
             ('addGlobal', {'key': 'k', 'value': MAC}, {(0,)}, 'frame 0'),
             ('let', {'dest': DEST, 'source': ESC}, {(-1,)}, 'the innermost frame'),
             ('let', {'dest': DEST, 'source': OTH}, {(-1,)}, 'the innermost frame')]
    for name in ('newcounter', 'newif', 'newcount', 'newdimen', 'newskip', 'newmuskip', 'newcommand', 'newenvironment', 'chardef', 'mathchardef'):
        table.append((name, None, {(0,), ()}, 'frame 0 (these declarations are global in LaTeX and must survive groups)'))
    table.append(('newdef', {'name': 'foo', 'args': None, 'definition': None, 'local': True}, {(-1,)}, 'the innermost frame'))
    table.append(('newdef', {'name': 'foo', 'args': None, 'definition': None, 'local': False}, {(0,)}, 'frame 0'))
    seen = {}
    for name, extra, allowed, where_txt in table:
        fn = m.func('plasTeX.Context', 'Context.' + name)
        chk.analysed(fn)
        if extra is None:
            extra = {a.arg: A.TOP for a in fn.node.args.args[1:]}
            if 'name' in extra:
                extra['name'] = 'iffoo' if name == 'newif' else 'foo'
            if 'num' in extra:
                extra['num'] = 65
        got = registrations(m, fn, extra)
        chk.paths += len(got)
        key = 'Context.%s' % name
        if name in ('let', 'newdef'):
            prev = seen.setdefault(key, [True, []])
            prev[1].append((extra.get('local', extra.get('source')), sorted(got)))
            ok = got == allowed
            if not ok:
                prev[0] = False
            if len(prev[1]) == 2:
                chk.verdict(R, key, prev[0], '%s registers in frames %s (0 = global frame, -1 = innermost of 3); expected %s for each case'
                            % (key, prev[1], where_txt if name == 'let' else 'the innermost frame for local=True and frame 0 for local=False'),
                            chk.where(fn), str(prev[1]))
            continue
        ok = bool(got - {()}) and got <= allowed
        chk.verdict(R, key, ok, '%s registers in frames %s of a 3-frame stack (0 = global frame, -1 = innermost); expected only %s'
                    % (key, sorted(got), where_txt), chk.where(fn), str(sorted(got)))
    # a \\def over an earlier \\def of the same scope makes a new class: the old class object (which \\let copies and nodes already built
    # still refer to) is left as it was
    fn = m.func('plasTeX.Context', 'Context.newdef')
    class NH(RegHooks):
        def call(self, interp, node, fname, args, kwargs, state):
            if fname == 'type' and len(args) == 3 and isinstance(args[0], str) and isinstance(args[2], dict):
                k = state.env.get('__made', 0)
                state.env['__made'] = k + 1
                return A.Obj('new-class%d' % k, dict(args[2], __name__=args[0], macroName=None,
                                                     __bases=tuple(getattr(b, 'name', '?') for b in (args[1] if isinstance(args[1], tuple) else ()))))
            if fname == 'macroName' and len(args) == 1 and isinstance(args[0], A.Obj) and isinstance(args[0].attrs.get('__name__'), str):
                return args[0].attrs['__name__']
            return RegHooks.call(self, interp, node, fname, args, kwargs, state)
    for local in (True, False):
        h = NH(m, Context)
        h.keep = lambda ev: False
        it = A.Interp(model=m, scope=fn, hooks=h, max_iter=3, exc_edges=False, inline=6, heap=True, precise_exc=True)
        env = ctx_heap(m, 3)
        old = A.Obj('old-class', {'args': 'OLD-ARGS', 'definition': 'OLD-BODY', '__bases': ('Definition', 'Macro'), '__name__': 'foo'})
        for i, f in enumerate(env['__frames']):
            f.attrs['__items'] = {'foo': old} if i == (2 if local else 0) else {}
        env['self'].attrs.update({'counters': {}, 'writes': {}, '__items': None})
        env.update({'name': 'foo', 'args': None, 'definition': None, 'local': local, '__old': old})
        got = set()
        for kind, s2, v in it.run_function(fn, env=env):
            fr = s2.env['__frames'][2 if local else 0]
            cur = fr.attrs.get('__items', {}).get('foo') if isinstance(fr.attrs.get('__items'), dict) else A.TOP
            o2 = s2.env['__old']
            got.add((kind, 'the old class is still registered' if cur is o2 else ('a new class' if isinstance(cur, A.Obj) else 'TOP'),
                     'old class as it was' if (o2.attrs.get('args'), o2.attrs.get('definition')) == ('OLD-ARGS', 'OLD-BODY') else 'old class rewritten'))
        if it.imprecise or it.unknown_branches:
            chk.undecided(R, 'Context.newdef over an earlier definition (local=%s)' % local, '; '.join((list(it.imprecise) + list(it.unknown_branches))[:3]), chk.where(fn))
        else:
            chk.decide(R, 'Context.newdef over an earlier definition (local=%s)' % local, got, {('return', 'a new class', 'old class as it was')},
                       'newdef("foo") in a scope that already holds a \\def foo gives %s; expected a new class in its place and the old class object '
                       'untouched - copies made with \\let and nodes built earlier keep the old meaning' % sorted(got), chk.where(fn))
    # a local insertion leaves every enclosing frame as it was (its definitions and its character aliases)
    for name, extra in (('let', {'dest': DEST, 'source': ESC}), ('let', {'dest': DEST, 'source': OTH}), ('addLocal', {'key': 'd', 'value': MAC})):
        fn = m.func('plasTeX.Context', 'Context.' + name)
        h = RegHooks(m, Context)
        h.keep = lambda ev: False
        it = A.Interp(model=m, scope=fn, hooks=h, max_iter=4, exc_edges=False, inline=3, heap=True)
        env = ctx_heap(m, 3)
        for i, f in enumerate(env['__frames']):
            f.attrs['__items'] = {'d': 'definition-in-frame-%d' % i} if i < 2 else {}
            f.attrs['lets'] = {'d': 'alias-in-frame-%d' % i} if i < 2 else {}
        env['self'].attrs.update({'counters': {}, 'writes': {}, '__items': None})
        env.update(extra)
        got = set()
        for kind, s2, v in it.run_function(fn, env=env):
            if kind != 'return':
                got.add('%s %s' % (kind, v))
                continue
            fr = s2.env['__frames']
            got.add(' '.join('frame%d: defs %s aliases %s' % (i, sorted(fr[i].attrs.get('__items', {}).items()) if isinstance(fr[i].attrs.get('__items'), dict) else 'TOP',
                                                              sorted(fr[i].attrs.get('lets', {}).items()) if isinstance(fr[i].attrs.get('lets'), dict) else 'TOP') for i in (0, 1)))
        want = ' '.join("frame%d: defs [('d', 'definition-in-frame-%d')] aliases [('d', 'alias-in-frame-%d')]" % (i, i, i) for i in (0, 1))
        key = 'Context.%s(%s) leaves the enclosing frames alone' % (name, 'a control sequence' if extra.get('source') is ESC else ('a character' if 'source' in extra else 'a macro'))
        if it.unknown_branches and got != {want}:
            chk.undecided(R, key, 'test not determined: %s' % it.unknown_branches[:2], chk.where(fn))
        else:
            chk.decide(R, key, got, {want}, '%s on the innermost of three frames leaves the two enclosing frames as %s; expected them unchanged (%s) - '
                       'what was in force before the group must be back after it' % (name, sorted(got), want), chk.where(fn))
    prim = 'plasTeX.Base.TeX.Primitives'
    for cname, want in (('def_', True), ('edef', True), ('gdef', False), ('xdef', False)):
        try:
            c = m.cls(prim, cname)
        except AnalysisError:
            chk.fail(R, '\\%s scope' % cname, 'definition primitive %s not found' % cname, prim)
            continue
        v = m.class_const(c, 'local')
        chk.verdict(R, '\\%s scope' % cname.rstrip('_'), v is want, '\\%s has local=%r, expected %r' % (cname.rstrip('_'), v, want), chk.where(c), 'local=%r' % v)
    dc = m.cls(prim, 'DefCommand')
    fn = m.find_method(dc, 'invoke')
    chk.analysed(fn)
    passes = any(isinstance(c, ast.Call) and M.call_name(c).endswith('newdef') and
                 any(k.arg == 'local' and text(k.value) == 'self.local' for k in c.keywords) for c in M.calls_in(fn.node))
    chk.verdict(R, 'DefCommand.invoke passes its scope', passes, 'DefCommand.invoke does not pass local=self.local to newdef', chk.where(fn))


class HeapHooks(TableHooks):
    """type()/isinstance() over heap objects that carry a '__class' label; dict.* calls on a frame with '__own' entries."""
    SUBCLASS = {'K2': 'K'}          # K2 derives from K

    def _isa(self, c, k):
        while c is not None:
            if c == k:
                return True
            c = self.SUBCLASS.get(c)
        return False

    def call(self, interp, node, fname, args, kwargs, state):
        if fname == 'type' and len(args) == 1 and isinstance(args[0], A.Obj) and '__class' in args[0].attrs:
            return args[0].attrs['__class']
        if fname == 'isinstance' and len(args) == 2 and isinstance(args[0], A.Obj) and '__class' in args[0].attrs and isinstance(args[1], str):
            return self._isa(args[0].attrs['__class'], args[1])
        if fname == 'issubclass' and len(args) == 2 and all(isinstance(a, str) for a in args):
            return self._isa(args[0], args[1])
        if fname in ('dict.__getitem__', 'super().__getitem__') and isinstance(state.env.get('self'), A.Obj):
            own = state.env['self'].attrs.get('__own', {})
            key = args[-1]
            if key in own:
                return own[key]
            state.env['__exc'] = 'KeyError'
            return A.TOP
        if fname in ('dict.__setitem__', 'super().__setitem__') and isinstance(state.env.get('self'), A.Obj) and len(args) >= 2 \
           and isinstance(state.env['self'].attrs.get('__own'), dict):
            state.env['self'].attrs['__own'][args[-2]] = args[-1]
            return A.NONE
        if fname in ('dict.__contains__', 'super().__contains__') and isinstance(state.env.get('self'), A.Obj):
            return args[-1] in state.env['self'].attrs.get('__own', {})
        if fname in ('dict.keys', 'super().keys') and args and isinstance(args[0], A.Obj):
            return list(args[0].attrs.get('__own', {}).keys())
        if fname == 'dict.fromkeys' and args and isinstance(args[0], (list, tuple)) and A.is_concrete(args[0]):
            return dict.fromkeys(args[0], args[1] if len(args) > 1 else None)
        if fname == 'type' and len(args) == 3:
            return A.Obj('newclass:%s' % (args[0],), {'__class': 'type'})
        return TableHooks.call(self, interp, node, fname, args, kwargs, state)


def macro_obj(label, cls, mode, name, parent=None):
    return A.Obj(label, {'__class': cls, '__class__': cls, 'macroMode': mode, 'MODE_NONE': 0, 'MODE_BEGIN': 1, 'MODE_END': 2,
                         'nodeName': name, 'parentNode': parent, 'level': 10, 'DOCUMENT_LEVEL': -1})


def stack_heap(m, objs, shared=None):
    """Context heap whose frames were opened by `objs` (None = bare group; the first is the global frame)."""
    env = ctx_heap(m, len(objs))
    for f, o in zip(env['__frames'], objs):
        f.attrs['obj'] = o
    return env


def run_stack(m, fn, env, inline=3):
    h = HeapHooks(m, m.cls('plasTeX.Context', 'Context'))
    h.keep = lambda ev: False
    it = A.Interp(model=m, scope=fn, hooks=h, max_iter=12, exc_edges=False, inline=inline, heap=True, precise_exc=True)
    outs = it.run_function(fn, env=env)
    res = []
    for kind, s, v in outs:
        if kind != 'return':
            continue
        this = s.env['self']
        frames = this.attrs.get('contexts')
        top = this.attrs.get('top')
        state = []
        if not isinstance(frames, list) or not frames or not all(isinstance(f, A.Obj) for f in frames):
            res.append(('?', ['frame list not determined'], s, v))
            continue
        if top is not frames[-1]:
            state.append('context.top is not the innermost frame')
        elif this.attrs.get('categories') is not top.attrs.get('categories'):
            state.append('context.categories is not the table of the innermost frame')
        if this.attrs.get('depth') != len(frames):
            state.append('context.depth is %r with %d frames' % (this.attrs.get('depth'), len(frames)))
        for a, b in zip(frames, frames[1:]):
            if b.attrs.get('parent') is not a:
                state.append('frame %s is not chained to the frame below it' % b.label)
        res.append((tuple(f.label for f in frames), state, s, v))
    return res


def chain_rules(chk, m, rid):
    """Lookup through the chain of frames; registration of unknown names; \\newif guard."""
    R = chk.rule(rid, 'name lookup over a chain of three frames (abstract interpretation on a small heap): frame[key], frame.get, '
                 'key in frame and frame.keys() see the names of every enclosing frame; an unknown name gets one class that is '
                 'registered globally on every path; \\newif of an existing name is a no-op', 10)
    ci = m.cls('plasTeX.Context', 'ContextItem')
    Context = m.cls('plasTeX.Context', 'Context')

    def chain():
        g = A.Obj('G', {'__own': {'a': 'va'}, 'parent': None}, cls=ci)
        mid = A.Obj('M', {'__own': {'b': 'vb'}, 'parent': g}, cls=ci)
        top = A.Obj('T', {'__own': {'c': 'vc'}, 'parent': mid}, cls=ci)
        return top
    cases = [('__getitem__', {'key': 'a'}, {('return', "'va'")}, 'a name of the outermost frame is found from the innermost'),
             ('__getitem__', {'key': 'zz'}, {('raise', "'KeyError'")}, 'an unknown name raises KeyError'),
             ('get', {'key': 'a', 'default': 'D'}, {('return', "'va'")}, 'get() finds a name of the outermost frame'),
             ('get', {'key': 'zz', 'default': 'D'}, {('return', "'D'")}, 'get() of an unknown name gives the default'),
             ('has_key', {'key': 'a'}, {('return', 'True')}, 'a name of the outermost frame is "in" the innermost'),
             ('has_key', {'key': 'c'}, {('return', 'True')}, 'an own name is "in" the frame'),
             ('has_key', {'key': 'zz'}, {('return', 'False')}, 'an unknown name is not "in" the frame'),
             ('keys', {}, {('return', "['a', 'b', 'c']")}, 'keys() lists the names of all enclosing frames')]
    for meth, extra, want, label in cases:
        fn = m.find_method(ci, meth)
        need(fn is not None, 'ContextItem.%s not found' % meth)
        chk.analysed(fn)
        h = HeapHooks(m, ci)
        h.keep = lambda ev: False
        it = A.Interp(model=m, scope=fn, hooks=h, max_iter=8, exc_edges=False, precise_exc=True, heap=True, inline=6)
        top = chain()
        env = {'self': top, '__top': top}
        env.update(extra)
        outs = it.run_function(fn, env=env)
        if it.unknown_branches or it.imprecise:
            chk.undecided(R, 'ContextItem.%s: %s' % (meth, label), '; '.join((it.imprecise + it.unknown_branches)[:2]), chk.where(fn))
            continue
        got = set()

        def owns(s2):
            out, f = [], s2.env['__top']
            while isinstance(f, A.Obj):
                out.append('%s{%s}' % (f.label, ','.join(sorted(f.attrs.get('__own', {})))))
                f = f.attrs.get('parent')
            return ' '.join(out)
        for kind, s2, v in outs:
            if meth == 'keys' and isinstance(v, list) and A.is_concrete(v):
                v = sorted(v)
            if meth == 'has_key' and (v is None or isinstance(v, bool)):
                v = bool(v)
            got.add((kind, repr(v), owns(s2)))
        want = {w + ('T{c} M{b} G{a}',) for w in want}
        chk.decide(R, 'ContextItem.%s: %s' % (meth, label), got, want,
                   'ContextItem.%s(%s) on the innermost of three chained frames {a} <- {b} <- {c} gives (outcome, value, names held by each '
                   'frame afterwards) %s, expected %s: %s; a lookup must not copy a name into another frame (a later global redefinition '
                   'would be hidden by the copy)'
                   % (meth, ', '.join('%s=%r' % kv for kv in extra.items()), sorted(got), sorted(want), label), chk.where(fn))
    # unknown names: two real frames (ContextItem objects whose entries live in one dictionary used by the dict.* hooks and by the
    # interpreter's own item protocol), the context object on top of them; lookups, the guard and the registration are interpreted
    fn = m.find_method(Context, '__getitem__')
    chk.analysed(fn)

    class UH(HeapHooks):
        def call(self, interp, node, fname, args, kwargs, state):
            if fname == 'ismacro' and len(args) == 1:
                return isinstance(args[0], A.Obj) and args[0].label.startswith('newclass:')
            if fname == 'isinstance' and len(args) == 2 and isinstance(args[0], A.Obj) and args[1] in (str, int, list, dict, tuple):
                return False
            if fname == 'macroName' and len(args) == 1 and isinstance(args[0], A.Obj) and args[0].label.startswith('newclass:'):
                return args[0].label.split(':', 1)[1]
            if re.match(r'(log|macrolog|stacklog)\.\w+$', fname):
                return A.NONE
            return HeapHooks.call(self, interp, node, fname, args, kwargs, state)

    def frames2():
        dg, dt = {'known': A.Obj('known-class', {})}, {}
        g = A.Obj('G', {'__own': dg, '__dict': dg, 'parent': None}, cls=ci)
        t = A.Obj('T', {'__own': dt, '__dict': dt, 'parent': g}, cls=ci)
        ctx = A.Obj('context', {'contexts': [g, t], 'top': t, 'warnOnUnrecognized': False, 'isMathMode': False}, cls=Context)
        return ctx, g, t
    for label, key, want in (('registers the class made for an unknown name', 'foo', ('return', 'a new class', 'registered globally')),
                             ('finds a known name without making a class', 'known', ('return', 'the known class', 'nothing registered'))):
        ctx, g, t = frames2()
        h = UH(m, Context)
        h.keep = lambda ev: False
        it = A.Interp(model=m, scope=fn, hooks=h, max_iter=4, exc_edges=False, precise_exc=True, heap=True, inline=4)
        got = set()
        try:
            outs = it.run_function(fn, env={'self': ctx, 'key': key, '__g': g, '__t': t})
        except AnalysisError as e:
            chk.undecided(R, 'Context.__getitem__ %s' % label, str(e), chk.where(fn))
            continue
        if it.imprecise or it.unknown_branches:
            chk.undecided(R, 'Context.__getitem__ %s' % label, '; '.join(sorted(set(it.imprecise + it.unknown_branches))[:3]), chk.where(fn))
            continue
        for kind, s2, v in outs:
            og, ot = s2.env['__g'].attrs['__own'], s2.env['__t'].attrs['__own']
            reg = og.get(key)
            where = ('nothing registered' if set(og) == {'known'} and not ot else
                     ('registered globally' if (reg is v and isinstance(v, A.Obj) and key not in ot) else 'registered in frames G%s T%s' % (sorted(og), sorted(ot))))
            what = 'a new class' if isinstance(v, A.Obj) and v.label.startswith('newclass:') else \
                   ('the known class' if isinstance(v, A.Obj) and v.label == 'known-class' else repr(v))
            got.add((kind, what, where))
        chk.decide(R, 'Context.__getitem__ %s' % label, got, {want},
                   'looking up %r gives %s; expected %s on every path - an unknown name gets one new class that is also registered in '
                   'the global frame, otherwise \\begin{foo} and \\end{foo} get different classes and the end no longer matches the begin'
                   % (key, sorted(got), want), chk.where(fn))
    # \newif guard
    fn = m.find_method(Context, 'newif')
    chk.analysed(fn)
    for label, known, want in (('an existing \\newif is left alone', ['iffoo'], {()}), ('a new \\newif registers globally', [], {(0,)})):
        class H(RegHooks):
            def call(self, interp, node, fname, args, kwargs, state, known=known):
                if fname == 'self.keys' and not args:
                    return list(known)
                return RegHooks.call(self, interp, node, fname, args, kwargs, state)
        got = registrations(m, fn, {'name': 'iffoo', 'initial': False}, hooks_cls=H)
        chk.decide(R, 'Context.newif: %s' % label, {repr(g) for g in got}, {repr(w) for w in want},
                   'newif("iffoo") with known names %s registers in frames %s, expected %s: a repeated declaration (\\provideboolean, a '
                   'package loaded twice) must not reset the switch' % (known, sorted(got), sorted(want)), chk.where(fn))


def r44(chk, m, rule_id='R4.4'):
    R = chk.rule(rule_id, 'frames on a small heap (abstract interpretation): chained lookup through parent frames; \\let lookup '
                 'innermost-first; pop removes exactly the frames of the group being closed (exact class for \\end, never the '
                 'parent node\'s frame, never the global frame); after every push and pop top/categories/depth describe the '
                 'innermost frame and frames are chained to their parent', 14)
    Context = m.cls('plasTeX.Context', 'Context')
    # -- chained lookup ------------------------------------------------------
    ci = m.cls('plasTeX.Context', 'ContextItem')
    fn = m.find_method(ci, '__getitem__')
    chk.analysed(fn)
    OWN, PARENT = A.Sym('own-value', truthy=True), A.Sym('parent-value', truthy=True)
    cases = [('own entry wins', {'K': OWN}, {'K': PARENT}, {('return', 'own-value')}),
             ('a miss falls back to the parent frame', {}, {'K': PARENT}, {('return', 'parent-value')}),
             ('a miss in the outermost frame raises KeyError', {}, None, {('raise', 'KeyError')}),
             ('a miss everywhere raises KeyError', {}, {}, {('raise', 'KeyError')})]
    for label, own, parent, want in cases:
        h = HeapHooks(m, ci)
        h.keep = lambda ev: False
        it = A.Interp(model=m, scope=fn, hooks=h, max_iter=2, exc_edges=False, precise_exc=True)
        outs = it.run_function(fn, env={'self': A.Obj('frame', {'__own': own, 'parent': parent}), 'key': 'K'})
        got = {(kind, v.label if isinstance(v, A.Sym) else (v if kind == 'raise' else repr(v))) for kind, s, v in outs}
        chk.decide(R, 'ContextItem.__getitem__: %s' % label, got, want,
                   'looking up a name in a frame (%s): outcomes %s, expected %s - a miss in a frame must be looked up in the parent '
                   'frame and raise KeyError only at the outermost' % (label, sorted(got), sorted(want)), chk.where(fn))
    # -- \let lookup ---------------------------------------------------------
    fn = m.find_method(Context, 'get_let')
    chk.analysed(fn)
    for label, cmd, want in (('innermost \\let wins', 'c', 'INNER'), ('outer \\let is seen through frames without one', 'd', 'OUTER-D'),
                             ('unknown command is returned unchanged', 'zz', 'zz')):
        env = ctx_heap(m, 3)
        fr = env['__frames']
        fr[0].attrs['lets'] = {'c': 'OUTER', 'd': 'OUTER-D'}
        fr[1].attrs['lets'] = {'c': 'INNER'}
        fr[2].attrs['lets'] = {}
        env['command'] = cmd
        h = HeapHooks(m, Context)
        h.keep = lambda ev: False
        it = A.Interp(model=m, scope=fn, hooks=h, max_iter=6, exc_edges=False, precise_exc=True)
        outs = it.run_function(fn, env=env)
        got = {(kind, v if isinstance(v, str) else repr(v)) for kind, s, v in outs}
        chk.decide(R, 'Context.get_let: %s' % label, got, {('return', want)},
                   'get_let(%r) over frames with \\let tables [{c,d}, {c}, {}] gives %s, expected %r: the innermost live \\let must win'
                   % (cmd, sorted(got), want), chk.where(fn))
    # -- pop -----------------------------------------------------------------
    fn = m.find_method(Context, 'pop')
    chk.analysed(fn)
    A_ = macro_obj('A', 'KA', 0, 'a')
    B = macro_obj('B', 'K', 1, 'center')
    E = macro_obj('E', 'K', 2, 'center')
    C2 = macro_obj('C2', 'K2', 0, 'centering')
    P = macro_obj('P', 'KP', 0, 'p')
    X = macro_obj('X', 'KX', 0, 'x', parent=P)
    F = macro_obj('F', 'KF', 0, 'foo')
    EF = macro_obj('EF', 'KEF', 0, 'endfoo')
    pops = [('pop() closes the innermost bare group only', [None, A_, None, B, None], None, 4),
            ('pop() discards macro frames above the bare group', [None, A_, None, B], None, 2),
            ('pop() never removes the global frame', [None], None, 1),
            ('pop(obj) removes the frame obj pushed and those above', [None, A_, None, B, None], B, 3),
            ('pop(\\end) removes the frame of its \\begin', [None, A_, None, B, None], E, 3),
            ('pop(\\end) does not take a frame of a subclass for its own', [None, B, C2, None], E, 1),
            ('pop(obj) keeps the frame of obj.parentNode', [None, P, None], X, 2),
            ('pop(\\endfoo) removes the frame of \\foo', [None, F, None], EF, 1)]
    for label, objs, arg, left in pops:
        env = stack_heap(m, objs)
        env['obj'] = arg
        res = run_stack(m, fn, env)
        chk.paths += len(res)
        got = {(len(fr) if fr != '?' else '?', tuple(st)) for fr, st, s, v in res}
        chk.decide(R, 'Context.pop: %s' % label, {repr(g) for g in got}, {repr((left, ()))},
                   'pop(%s) on frames opened by %s leaves %s, expected %d frames with top/categories/depth re-mapped'
                   % (arg.label if arg is not None else '', [o.label if o is not None else '{' for o in objs],
                      sorted(got, key=repr), left), chk.where(fn))
    # -- push ----------------------------------------------------------------
    fn = m.find_method(Context, 'push')
    chk.analysed(fn)
    DOC = macro_obj('DOC', 'KD', 1, 'document')
    DOC.attrs['level'] = -1
    for label, objs, arg, n in (('push() opens one bare group', [None, A_], None, 3),
                                ('push(obj) opens one frame for obj', [None, A_], B, 3),
                                ('push(document) restarts from the global frame', [None, A_, None], DOC, 2)):
        env = stack_heap(m, objs)
        env['context'] = arg
        res = run_stack(m, fn, env)
        chk.paths += len(res)
        got = set()
        for fr, st, s, v in res:
            st = list(st)
            if fr != '?':
                frames = s.env['self'].attrs['contexts']
                o = frames[-1].attrs.get('obj')
                if (o.label if isinstance(o, A.Obj) else o) != (arg.label if arg is not None else None):
                    st.append('the new frame does not record the macro that opened it')
                if frames[-1].attrs.get('categories') is not s.env['__shared']:
                    st.append('the new frame does not inherit the category table in force')
            got.add((len(fr) if fr != '?' else '?', tuple(st)))
        chk.decide(R, 'Context.push: %s' % label, {repr(g) for g in got}, {repr((n, ()))},
                   'push(%s) on %d frames gives %s, expected %d frames, the new one chained to its parent, recording its opener, '
                   'inheriting the category table, with top/categories/depth re-mapped'
                   % (arg.label if arg is not None else '', len(objs), sorted(got, key=repr), n), chk.where(fn))
    mm = m.find_method(Context, 'mapMethods')
    chk.analysed(mm)
