"""C04 - Grouping restores every local change; the stack stays balanced.

R4.1 push/pop pairing table (who may push/pop, net effect per normal exit,
     pop never below the entry level except in closers),
R4.2 copy-on-write of category tables,
R4.3 local/global insertion table,
R4.4 chained lookup / innermost-first alias lookup / frame matching of pop /
     method re-mapping after every push and pop."""
import ast
import re

from .. import absint as A
from .. import effects as E
from .. import flow
from .. import model as M
from ..report import AnalysisError, need
from ..util import SelfHooks, text

# function -> (allowed (net, minimum) pairs at normal exits, reason)
PAIRING = {
    'plasTeX.Macro.invoke': ({(-1, -1), (0, 0), (1, 0)}, 'END pops its frame, BEGIN pushes, a command pushes then pops'),
    'plasTeX.Environment.invoke': ({(-1, -1), (1, 0)}, 'END pops, BEGIN pushes'),
    'plasTeX.VerbatimEnvironment.invoke': ({(0, 0), (1, 0)}, 'push ... pop on each end pattern; +1 only when the input ends inside the environment'),
    'plasTeX.Base.TeX.Text.bgroup.invoke': ({(1, 0)}, 'opens a group'),
    'plasTeX.Base.TeX.Text.egroup.invoke': ({(-1, -1)}, 'closes a group'),
    'plasTeX.Base.TeX.Primitives.MathShift.invoke': ({(-1, -1), (1, 0)}, 'closing shift pops, opening shift pushes'),
    'plasTeX.Base.LaTeX.Math.BeginDisplayMath.invoke': ({(1, 0)}, r'\[ opens'),
    'plasTeX.Base.LaTeX.Math.EndDisplayMath.invoke': ({(-1, -1)}, r'\] closes'),
    'plasTeX.Base.LaTeX.Math.BeginMath.invoke': ({(0, 0), (1, 0)}, r'\( opens (0 when math is disabled by ifthen)'),
    'plasTeX.Base.LaTeX.Math.EndMath.invoke': ({(-1, -1), (0, 0)}, r'\) closes (0 when math is disabled by ifthen)'),
    'plasTeX.Base.LaTeX.Arrays.Array.CellDelimiter.invoke': ({(0, -1)}, 'pop then push: a fresh frame per cell'),
    'plasTeX.Base.LaTeX.Arrays.Array.EndRow.invoke': ({(0, -1)}, 'pop then push: a fresh frame per row'),
    'plasTeX.Base.LaTeX.Arrays.Array.invoke': ({(-1, -1), (1, 0)}, 'begin: cell frame on top of the environment frame; end: pop(self) removes table, row and cell'),
    'plasTeX.Base.LaTeX.Verbatim.verb.invoke': ({(0, 0)}, 'push, scan, pop'),
    'plasTeX.Packages.alltt.alltt.invoke': ({(0, 0)}, 'push, scan, pop'),
    'plasTeX.Packages.listings.lstinline.invoke': ({(0, 0)}, 'push, scan, pop'),
    'plasTeX.Packages.listings.lstlisting.invoke': ({(0, 0), (1, 0)}, 'as VerbatimEnvironment.invoke'),
    'plasTeX.Packages.natbib.bibliography.loadBibliographyFile': ({(0, 0)}, 'push, load, pop'),
    'plasTeX.TeX.TeX.createSubProcess': ({(1, 0)}, 'opens the argument frame'),
    'plasTeX.TeX.TeX.endSubProcess': ({(-1, -1), (0, 0)}, 'closes the argument frame if one was opened'),
    'plasTeX.TeX.TeX.expandTokens': ({(0, 0)}, 'createSubProcess ... endSubProcess'),
}


def pushpop_transfer(n, v):
    net, lo = v
    if isinstance(n, ast.Call):
        nm = M.call_name(n)
        if nm.endswith('context.push') or nm.endswith('context.append') or nm.endswith('createSubProcess'):
            net += 1
        elif nm.endswith('context.pop') or nm.endswith('endSubProcess'):
            net -= 1
    return (net, min(lo, net))


def is_pushpop(fn):
    for c in M.calls_in(fn.node):
        nm = M.call_name(c)
        if re.search(r'context\.(push|pop|append)$', nm) or nm.endswith('createSubProcess') or nm.endswith('endSubProcess'):
            return True
    return False


def check(chk):
    m = chk.model
    r41(chk, m)
    r42(chk, m)
    r43(chk, m)
    r44(chk, m)
    chk.decline('that every concrete document leaves depth 1 (depends on the document being balanced)')


def r41(chk, m):
    R = chk.rule('R4.1', 'context push/pop pairing table: only tabled functions push/pop; at every normal exit the net '
                 'effect and the lowest intermediate level are those of the table', 21)
    for fn in sorted(E.all_functions(m), key=lambda f: f.fullname):
        if 'simpletal' in fn.fullname or not is_pushpop(fn):
            continue
        chk.analysed(fn)
        chk.call_sites += sum(1 for c in M.calls_in(fn.node) if re.search(r'context\.(push|pop|append)$|SubProcess$', M.call_name(c)))
        normal, raised = flow.function_exits(fn.node, (0, 0), pushpop_transfer)
        ent = PAIRING.get(fn.fullname)
        if ent is None:
            chk.fail(R, 'untabled: %s' % fn.fullname,
                     '%s pushes/pops the context stack (net/min at exits %s) but is not in the pairing table: every '
                     'push/pop site must be paired by construction' % (fn.fullname, sorted(normal)), chk.where(fn))
            continue
        allowed, why = ent
        extra = sorted(set(normal) - allowed)
        missing = sorted(allowed - set(normal))
        chk.verdict(R, fn.fullname, not extra and not missing,
                    '%s: (net, lowest) at normal exits is %s, table requires %s (%s)%s'
                    % (fn.fullname, sorted(normal), sorted(allowed), why,
                       '; the frame opened here is not closed/the closer no longer pops' if extra or missing else ''),
                    chk.where(fn), '%s: %s' % (sorted(normal), why))
    # mode-specific: Macro.invoke / Environment.invoke / Array.invoke
    Macro = m.cls('plasTeX', 'Macro')
    want = {'plasTeX.Macro.invoke': {'MODE_END': {(-1, -1)}, 'MODE_BEGIN': {(1, 0)}, 'MODE_NONE': {(0, 0)}},
            'plasTeX.Environment.invoke': {'MODE_END': {(-1, -1)}, 'MODE_BEGIN': {(1, 0)}, 'MODE_NONE': {(1, 0)}},
            'plasTeX.Base.LaTeX.Arrays.Array.invoke': {'MODE_END': {(-1, -1)}, 'MODE_BEGIN': {(1, 0)}}}
    R2 = chk.rule('R4.1m', 'per macro mode: END pops exactly its frame, BEGIN leaves exactly one frame open, a plain command is neutral', 8)
    for full, modes in want.items():
        mod, q = full.rsplit('.', 2)[0], '.'.join(full.rsplit('.', 2)[1:])
        if full.startswith('plasTeX.Base.LaTeX.Arrays'):
            mod, q = 'plasTeX.Base.LaTeX.Arrays', 'Array.invoke'
        elif full == 'plasTeX.Macro.invoke':
            mod, q = 'plasTeX', 'Macro.invoke'
        else:
            mod, q = 'plasTeX', 'Environment.invoke'
        fn = m.func(mod, q)
        for mode, exp in modes.items():
            h = SelfHooks(m, fn.cls)
            h.keep = lambda ev: ev[0] == 'call'
            it = A.Interp(model=m, scope=fn, hooks=h, max_iter=1, exc_edges=False)
            outs = it.run_function(fn, env={'self.macroMode': m.class_const(Macro, mode)})
            chk.paths += len(outs)
            got = set()
            for kind, s, v in outs:
                if kind != 'return':
                    continue
                net = lo = 0
                for ev in s.trace:
                    if re.search(r'context\.(push|append)$', ev[1]):
                        net += 1
                    elif ev[1].endswith('context.pop'):
                        net -= 1
                    lo = min(lo, net)
                got.add((net, lo))
            chk.verdict(R2, '%s [%s]' % (full, mode), got == exp,
                        '%s with macroMode %s: (net, lowest) = %s, expected %s' % (full, mode, sorted(got), sorted(exp)),
                        chk.where(fn), str(sorted(got)))


COPY_RX = re.compile(r'^(.+)\[:\]$|^list\((.+)\)$|^(.+)\.copy\(\)$|^copy\.copy\((.+)\)$|^copy\((.+)\)$')


def is_copy_expr(e):
    return COPY_RX.match(text(e)) is not None


def r42(chk, m):
    R = chk.rule('R4.2', 'category tables are copy-on-write: every element store into a categories list is dominated by an '
                 'unconditional rebinding of that list to a fresh copy installed in the innermost frame; the module '
                 'tables DEFAULT_/VERBATIM_CATEGORIES are only ever used through a copy', 3)
    # (a) element stores
    n_sites = 0
    for fn in E.all_functions(m):
        if 'simpletal' in fn.fullname:
            continue
        stores = []
        for n in M.walk_no_nested(fn.node):
            tgts = []
            if isinstance(n, ast.Assign):
                tgts = n.targets
            elif isinstance(n, ast.AugAssign):
                tgts = [n.target]
            for t in tgts:
                if isinstance(t, ast.Subscript) and cat_alias(fn, t.value):
                    stores.append((n, t))
            if isinstance(n, ast.Call) and isinstance(n.func, ast.Attribute) and n.func.attr in E.MUTATORS and cat_alias(fn, n.func.value):
                stores.append((n, n.func.value))
        if not stores:
            continue
        chk.analysed(fn)
        store_nodes = {id(n) for n, t in stores}

        def transfer(n, v, fn=fn):
            fresh, installed, bad = v
            if isinstance(n, ast.Assign) and is_copy_expr(n.value) and 'categories' in text(n.value):
                tg = [text(t) for t in n.targets]
                if any(cat_alias_text(fn, t) for t in tg):
                    fresh = True
                    installed = any(re.search(r'contexts\[-1\]\.categories$|\.top\.categories$', t) for t in tg)
            if id(n) in store_nodes and not (fresh and installed):
                bad = True
            return (fresh, installed, bad)
        normal, raised = flow.function_exits(fn.node, (False, False, False), transfer)
        bad = any(v[2] for v in normal | raised)
        for n, t in stores:
            n_sites += 1
        chk.verdict(R, '%s :: stores into a category table' % fn.fullname, not bad and bool(normal),
                    '%s writes an element of a category table that is not, on every path, a fresh copy installed in the '
                    'innermost frame: the table is shared with the enclosing frames (createContext shares it), so the '
                    'change leaks out of the group' % fn.fullname, chk.where(fn, stores[0][0]),
                    '%d store(s) dominated by copy+install' % len(stores))
    need(n_sites >= 2, 'no element stores into category tables found: anchor moved')
    # (b) module tables only through copies
    for fn in E.all_functions(m):
        for n in M.walk_no_nested(fn.node):
            if isinstance(n, ast.Name) and n.id in ('DEFAULT_CATEGORIES', 'VERBATIM_CATEGORIES') and isinstance(n.ctx, ast.Load):
                chk.analysed(fn)
                parent = enclosing_expr(fn.node, n)
                ok = parent is not None and is_copy_expr(parent)
                chk.verdict(R, '%s :: use of %s' % (fn.fullname, n.id), ok,
                            '%s uses the module-level table %s without copying it (%s): a later catcode change would '
                            'modify the defaults of every document' % (fn.fullname, n.id, text(parent) if parent is not None else '?'),
                            chk.where(fn, n))
    # (c) createContext shares the table (documented fact the COW rule relies on) and push copies for frame 0
    cc = m.func('plasTeX.Context', 'Context.createContext')
    shares = any(isinstance(n, ast.Assign) and text(n.targets[0]).endswith('.categories') and text(n.value) == 'self.categories'
                 for n in M.walk_no_nested(cc.node))
    chk.note('createContext %s the parent table' % ('shares' if shares else 'copies'))


def cat_alias_text(fn, t):
    return t.endswith('categories') or t in _aliases(fn)


def cat_alias(fn, expr):
    return cat_alias_text(fn, text(expr))


_AL = {}


def _aliases(fn):
    if fn not in _AL:
        names = set()
        for n in M.walk_no_nested(fn.node):
            if isinstance(n, ast.Assign):
                tg = [text(t) for t in n.targets]
                src = text(n.value)
                if any(t.endswith('categories') for t in tg) or re.search(r'categories(\[:\]|\.copy\(\))?$', src) or \
                   re.fullmatch(r'list\(.*categories\)', src):
                    for t in n.targets:
                        if isinstance(t, ast.Name):
                            names.add(t.id)
        _AL[fn] = names
    return _AL[fn]


def enclosing_expr(root, node):
    """Smallest enclosing Subscript/Call expression of a Name node."""
    best = None
    for n in ast.walk(root):
        if isinstance(n, (ast.Subscript, ast.Call)):
            inner = n.value if isinstance(n, ast.Subscript) else None
            if isinstance(n, ast.Subscript) and n.value is node:
                return n
            if isinstance(n, ast.Call) and node in n.args:
                return n
            if isinstance(n, ast.Call) and isinstance(n.func, ast.Attribute) and n.func.value is node:
                return n
    return best


def r43(chk, m, rule_id='R4.3'):
    R = chk.rule(rule_id, 'local/global insertion table: addLocal -> innermost frame, addGlobal -> frame 0, let -> innermost frame, '
                 'newcounter/newif/newcount/newdimen/newskip/newmuskip/newcommand/newenvironment/chardef -> global, '
                 'newdef(local) -> innermost / global by flag; def/edef local, gdef/xdef global', 16)
    def store_bases(fn):
        out = []
        for n in M.walk_no_nested(fn.node):
            if isinstance(n, ast.Assign):
                for t in n.targets:
                    if isinstance(t, ast.Subscript):
                        out.append(text(t.value))
        return out
    for name, want in (('addLocal', 'self.contexts[-1]'), ('addGlobal', 'self.contexts[0]')):
        fn = m.func('plasTeX.Context', 'Context.' + name)
        chk.analysed(fn)
        b = store_bases(fn)
        chk.verdict(R, 'Context.%s' % name, b == [want], 'Context.%s stores into %s, expected %s' % (name, b, want), chk.where(fn), str(b))
    fn = m.func('plasTeX.Context', 'Context.let')
    chk.analysed(fn)
    b = store_bases(fn)
    chk.verdict(R, 'Context.let', bool(b) and all(x in ('self.top', 'self.top.lets', 'self.contexts[-1]', 'self.contexts[-1].lets') for x in b),
                'Context.let stores into %s: \\let must be local to the innermost frame' % b, chk.where(fn), str(b))
    for name in ('newcounter', 'newif', 'newcount', 'newdimen', 'newskip', 'newmuskip', 'newcommand', 'newenvironment', 'chardef', 'mathchardef'):
        fn = m.func('plasTeX.Context', 'Context.' + name)
        chk.analysed(fn)
        calls = [M.call_name(c) for c in M.calls_in(fn.node) if M.call_name(c) in ('self.addGlobal', 'self.addLocal')]
        chk.verdict(R, 'Context.%s' % name, bool(calls) and all(c == 'self.addGlobal' for c in calls),
                    'Context.%s registers through %s: these declarations are global in LaTeX and must survive groups' % (name, calls),
                    chk.where(fn), str(calls))
    fn = m.func('plasTeX.Context', 'Context.newdef')
    chk.analysed(fn)
    ok = False
    for n in M.walk_no_nested(fn.node):
        if isinstance(n, ast.If) and text(n.test) == 'local':
            a = [M.call_name(c) for s in n.body for c in ast.walk(s) if isinstance(c, ast.Call)]
            b = [M.call_name(c) for s in n.orelse for c in ast.walk(s) if isinstance(c, ast.Call)]
            ok = a == ['self.addLocal'] and b == ['self.addGlobal']
    chk.verdict(R, 'Context.newdef', ok, 'Context.newdef must send local=True to addLocal and local=False to addGlobal', chk.where(fn))
    prim = 'plasTeX.Base.TeX.Primitives'
    for cname, want in (('def_', True), ('edef', True), ('gdef', False), ('xdef', False)):
        try:
            c = m.cls(prim, cname)
        except AnalysisError:
            chk.fail(R, '\\%s scope' % cname, 'definition primitive %s not found' % cname, prim)
            continue
        v = m.class_const(c, 'local')
        chk.verdict(R, '\\%s scope' % cname.rstrip('_'), v is want, '\\%s has local=%r, expected %r' % (cname.rstrip('_'), v, want), chk.where(c), 'local=%r' % v)
    dc = m.cls(prim, 'DefCommand')
    fn = m.find_method(dc, 'invoke')
    chk.analysed(fn)
    passes = any(isinstance(c, ast.Call) and M.call_name(c).endswith('newdef') and
                 any(k.arg == 'local' and text(k.value) == 'self.local' for k in c.keywords) for c in M.calls_in(fn.node))
    chk.verdict(R, 'DefCommand.invoke passes its scope', passes, 'DefCommand.invoke does not pass local=self.local to newdef', chk.where(fn))


def r44(chk, m):
    R = chk.rule('R4.4', 'chained lookup through parent frames; alias lookup innermost-first; pop matches END to BEGIN by exact '
                 'class; top/categories re-mapped after every push and pop', 6)
    ci = m.cls('plasTeX.Context', 'ContextItem')
    fn = m.find_method(ci, '__getitem__')
    chk.analysed(fn)
    ok = False
    for h in [n for n in M.walk_no_nested(fn.node) if isinstance(n, ast.ExceptHandler)]:
        rets = [text(r.value) for r in ast.walk(h) if isinstance(r, ast.Return) and r.value is not None]
        reraises = [r for r in ast.walk(h) if isinstance(r, ast.Raise)]
        ok = 'self.parent[key]' in rets and bool(reraises)
    chk.verdict(R, 'ContextItem.__getitem__ falls back to the parent frame', ok,
                'a miss in a frame must be looked up in the parent frame (and raise KeyError only at the outermost)', chk.where(fn))
    Context = m.cls('plasTeX.Context', 'Context')
    fn = m.find_method(Context, 'get_let')
    chk.analysed(fn)
    loops = [n for n in M.walk_no_nested(fn.node) if isinstance(n, ast.For)]
    ok = len(loops) == 1 and text(loops[0].iter).replace(' ', '') in ('reversed(self.contexts)', 'self.contexts[::-1]') and \
        any(isinstance(r, ast.Return) for r in ast.walk(loops[0]))
    chk.verdict(R, 'Context.get_let walks frames innermost-first', ok,
                'get_let iterates over %s: the innermost live \\let must win' % [text(l.iter) for l in loops], chk.where(fn))
    # pop: END matches BEGIN by exact class
    fn = m.find_method(Context, 'pop')
    chk.analysed(fn)
    exact = []
    loose = []
    for n in M.walk_no_nested(fn.node):
        if isinstance(n, ast.Compare) and len(n.ops) == 1:
            l, r = text(n.left), text(n.comparators[0])
            if re.fullmatch(r'type\(\w+\)|\w+\.__class__', l) and re.fullmatch(r'type\(\w+\)|\w+\.__class__', r):
                (exact if isinstance(n.ops[0], (ast.Eq, ast.Is)) else loose).append(text(n))
        if isinstance(n, ast.Call) and M.call_name(n) in ('isinstance', 'issubclass') and 'obj' in text(n):
            loose.append(text(n))
    chk.verdict(R, 'Context.pop matches \\end to \\begin by exact class', bool(exact) and not loose,
                'Context.pop decides "found the \\begin to our \\end" by %s: a frame of a subclass (e.g. \\centering inside '
                'center) would be taken for the environment\'s own frame' % (loose or 'nothing'), chk.where(fn), str(exact))
    # pop(obj) never removes the parent node's frame; pop() stops at the first group frame
    src_tests = [text(n.test) for n in M.walk_no_nested(fn.node) if isinstance(n, ast.If)]
    chk.verdict(R, 'Context.pop keeps the parent frame', any('obj.parentNode' in t for t in src_tests) and any(re.search(r'\bis obj\b', t) for t in src_tests),
                'Context.pop lost the "found ourselves" / "do not pop the parent node" tests: %s' % src_tests, chk.where(fn))
    # mapMethods after every push / pop
    for name in ('push', 'pop'):
        fn = m.find_method(Context, name)
        def transfer(n, v):
            if isinstance(n, ast.Call) and M.call_name(n) == 'self.mapMethods':
                return True
            if isinstance(n, ast.Call) and re.fullmatch(r'self\.contexts\.(append|pop|insert)', M.call_name(n)):
                return False
            return v
        normal, raised = flow.function_exits(fn.node, True, transfer)
        chk.verdict(R, 'Context.%s re-maps top/categories' % name, normal == {True},
                    'Context.%s can return after changing the frame list without calling mapMethods(): top, categories and depth '
                    'would still describe the old innermost frame' % name, chk.where(fn))
    mm = m.find_method(Context, 'mapMethods')
    chk.analysed(mm)
    assigns = {text(t): text(n.value) for n in M.walk_no_nested(mm.node) if isinstance(n, ast.Assign) for t in n.targets}
    ok = assigns.get('top') == 'self.contexts[-1]' or assigns.get('self.top') == 'self.contexts[-1]'
    ok = ok and assigns.get('self.categories') in ('top.categories', 'self.top.categories', 'self.contexts[-1].categories') \
        and assigns.get('self.depth') == 'len(self.contexts)'
    chk.verdict(R, 'Context.mapMethods binds the innermost frame', ok,
                'mapMethods must bind top=contexts[-1], categories=top.categories, depth=len(contexts): %s'
                % {k: v for k, v in assigns.items() if k in ('top', 'self.top', 'self.categories', 'self.depth')}, chk.where(mm))
