"""C11 - Verbatim text and mathematics pass through character-for-character.

R11.1 verbatim protocol ordering, R11.2 verbatim category table, R11.3 both end
patterns handled alike, R11.4 no substitutions initiated in verbatim/math
(= R7.5), R11.5 the end scan tests the tail of the collected tokens on every
token, R11.6 the \\verb delimiter is the token as read, R11.7 the math-shift
tracker is a stack (box arguments push and pop their own sentinel),
R11.8 source reconstruction is linear (every argument and every child
contributes its source exactly once, in order)."""
import ast
import re

from .. import flow
from .. import model as M
from ..report import AnalysisError, need
from ..util import text


def check(chk):
    m = chk.model
    r111(chk, m)
    r112(chk, m)
    r113_5(chk, m)
    from . import c07
    c07.r75(chk, m)
    r116(chk, m)
    r117(chk, m)
    r118(chk, m)
    chk.decline('token-for-token equality of the reconstructed math source with the author\'s formula for every formula '
                '(composition of per-node source properties over arbitrary trees is a runtime value)')


def order_transfer(events):
    """transfer that records the first occurrence order of named calls."""
    def transfer(n, v):
        if isinstance(n, ast.Call):
            nm = M.call_name(n)
            for key, rx in events:
                if re.search(rx, nm) and key not in v:
                    return v + (key,)
        return v
    return transfer


def r111(chk, m):
    R = chk.rule('R11.1', 'verbatim protocol: own frame pushed, arguments parsed, verbatim category codes installed - in this order '
                 'and before the scan; on every end-pattern path the frame is popped before the end token is re-inserted; the '
                 'escape and brace characters of the end pattern are read before the switch', 4)
    ev = [('push', r'context\.push$'), ('parse', r'^self\.parse$'), ('verbcodes', r'setVerbatimCatcodes$')]
    for mod, q in (('plasTeX', 'VerbatimEnvironment.invoke'), ('plasTeX.Base.LaTeX.Verbatim', 'verb.invoke')):
        fn = m.func(mod, q)
        chk.analysed(fn)
        normal, raised = flow.function_exits(fn.node, (), order_transfer(ev))
        seqs = {v for v in normal if v}
        chk.verdict(R, '%s: push, parse, verbatim codes' % q, seqs == {('push', 'parse', 'verbcodes')},
                    '%s reaches its exits with the protocol steps in the orders %s; required: push the frame, parse the arguments, '
                    'then install the verbatim category codes' % (q, sorted(normal)), chk.where(fn), str(sorted(seqs)))
    fn = m.func('plasTeX', 'VerbatimEnvironment.invoke')
    # characters of the end pattern read before the switch
    reads = [n.lineno for n in M.walk_no_nested(fn.node) if isinstance(n, ast.Assign) and re.search(r'context\.categories\[\d+\]\[0\]', text(n.value))]
    sw = [c.lineno for c in M.calls_in(fn.node) if M.call_name(c).endswith('setVerbatimCatcodes')]
    chk.verdict(R, 'escape/brace characters read before the switch', len(reads) == 3 and sw and max(reads) < min(sw),
                'the escape, begin-group and end-group characters must be read from the category table before it is replaced', chk.where(fn))
    # on each end-pattern arm: pop precedes pushTokens
    loops = [n for n in M.walk_no_nested(fn.node) if isinstance(n, ast.For) and text(n.iter) == 'tex']
    need(len(loops) == 1, 'VerbatimEnvironment.invoke: scan loop not found')
    arms = [n for n in ast.walk(loops[0]) if isinstance(n, ast.If) and re.search(r'tokens\[-endlength2?:\] == endpattern2?', text(n.test))]
    ok = len(arms) == 2
    for a in arms:
        calls = [(c.lineno, M.call_name(c)) for c in ast.walk(a) if isinstance(c, ast.Call)]
        pops = [l for l, nm in calls if nm.endswith('context.pop')]
        push = [l for l, nm in calls if nm == 'tex.pushTokens']
        inv = [l for l, nm in calls if nm == 'end.invoke']
        ok = ok and len(pops) == 1 and len(push) == 1 and pops[0] < push[0] and (not inv or pops[0] < inv[0]) and isinstance(a.body[-1], ast.Break)
    chk.verdict(R, 'end-pattern arms pop the frame before re-inserting the end token', ok,
                'each end-pattern arm must pop the verbatim frame, then create/expand the end token and push it back, then leave the scan', chk.where(fn))


def r112(chk, m):
    R = chk.rule('R11.2', 'verbatim category table: every class empty except letters; installed as a copy in the innermost frame', 2)
    from .c01 import module_env
    tokmod = m.module('plasTeX.Tokenizer')
    env = module_env(m, tokmod, ['VERBATIM_CATEGORIES'])
    v = env.get('VERBATIM_CATEGORIES')
    ok = isinstance(v, list) and len(v) == 16 and all(x == '' for i, x in enumerate(v) if i != 11) and isinstance(v[11], M._StringLetters)
    chk.verdict(R, 'VERBATIM_CATEGORIES', ok, 'VERBATIM_CATEGORIES must be empty everywhere except LETTER: %r' % (v,), chk.where(tokmod))
    sv = m.func('plasTeX.Context', 'Context.setVerbatimCatcodes')
    chk.analysed(sv)
    a = [n for n in M.walk_no_nested(sv.node) if isinstance(n, ast.Assign)]
    ok = len(a) == 1 and text(a[0].value) == 'VERBATIM_CATEGORIES[:]' and sorted(text(t) for t in a[0].targets) == ['self.categories', 'self.contexts[-1].categories']
    chk.verdict(R, 'setVerbatimCatcodes installs a copy in the innermost frame', ok,
                'setVerbatimCatcodes must assign a copy of the table to contexts[-1].categories and self.categories: %s' % [text(x) for x in a], chk.where(sv))


def r113_5(chk, m):
    R3 = chk.rule('R11.3', 'both end patterns (\\end{name} and \\endname) are handled by the same sequence of steps', 1)
    R5 = chk.rule('R11.5', 'the end of a verbatim environment is found by comparing the tail of the collected tokens with the end '
                  'pattern after every token (no separate matching state that can get out of step)', 2)
    fn = m.func('plasTeX', 'VerbatimEnvironment.invoke')
    loops = [n for n in M.walk_no_nested(fn.node) if isinstance(n, ast.For) and text(n.iter) == 'tex']
    loop = loops[0]
    arms = [n for n in ast.walk(loop) if isinstance(n, ast.If) and re.search(r'tokens\[-endlength2?:\] == endpattern2?', text(n.test))]
    def norm_arm(a):
        return [re.sub(r'endlength2|endpattern2', lambda mo: mo.group(0)[:-1], text(s)) for s in a.body]
    ok = len(arms) == 2 and norm_arm(arms[0]) == norm_arm(arms[1])
    chk.verdict(R3, 'VerbatimEnvironment.invoke end arms agree', ok,
                'the two end-pattern arms differ: %s' % ([norm_arm(a) for a in arms]), chk.where(fn))
    # R11.5: the loop body is: append; guarded tail comparison x2 - no other state
    body = loop.body
    ok_first = isinstance(body[0], ast.Expr) and text(body[0].value) == 'tokens.append(tok)'
    conds = [text(n.test) for n in ast.walk(loop) if isinstance(n, ast.If)]
    allowed = {'len(tokens) >= endlength', 'len(tokens) >= endlength2', 'tokens[-endlength:] == endpattern', 'tokens[-endlength2:] == endpattern2', 'res is None'}
    extra = sorted(set(conds) - allowed)
    state = [text(n) for n in ast.walk(loop) if isinstance(n, (ast.Assign, ast.AugAssign)) and
             text(n.targets[0] if isinstance(n, ast.Assign) else n.target) not in ('tokens', 'end', 'end.parentNode', 'end.macroMode', 'res')]
    chk.verdict(R5, 'every token is appended, then the tail is compared', ok_first and not extra and not state,
                'the scan keeps extra matching state (%s) or tests (%s): a partial end marker or a backslash right before the real '
                'end marker can make it miss the end and swallow the rest of the document' % (state, extra), chk.where(fn, loop))
    pats = {text(n.targets[0]): text(n.value) for n in M.walk_no_nested(fn.node) if isinstance(n, ast.Assign) and text(n.targets[0]) in ('endpattern', 'endpattern2', 'endlength', 'endlength2')}
    ok = pats.get('endpattern') == "list('%send%s%s%s' % (escape, bgroup, name, egroup))" and pats.get('endpattern2') == "list('%send%s' % (escape, name))" \
        and pats.get('endlength') == 'len(endpattern)' and pats.get('endlength2') == 'len(endpattern2)'
    chk.verdict(R5, 'end patterns are \\end{name} and \\endname in the current category characters', ok, 'end patterns: %s' % pats, chk.where(fn))


def r116(chk, m):
    R = chk.rule('R11.6', '\\verb: the delimiter is the first token as read (any character, letters included; only a begin-group is '
                 'mapped to the closing brace) and the scan ends at the first token equal to it; digest stops at the same token', 2)
    fn = m.func('plasTeX.Base.LaTeX.Verbatim', 'verb.invoke')
    chk.analysed(fn)
    asg = [(text(n.targets[-1]), text(n.value)) for n in M.walk_no_nested(fn.node) if isinstance(n, ast.Assign) and any(text(t) == 'endpattern' for t in n.targets)]
    loops = [n for n in M.walk_no_nested(fn.node) if isinstance(n, ast.For)]
    first = [l for l in loops if text(l.target) == 'endpattern']
    ok = len(first) == 1 and all(v == "Other('}')" for t, v in asg)
    from .c06 import guard_chain
    for n in M.walk_no_nested(fn.node):
        if isinstance(n, ast.Assign) and any(text(t) == 'endpattern' for t in n.targets):
            ok = ok and guard_chain(fn.node, n) == ['isinstance(endpattern, bgroup)']
    scan = [l for l in loops if text(l.target) == 'tok']
    ok2 = len(scan) == 1 and any(isinstance(x, ast.If) and text(x.test) == 'tok == endpattern' and isinstance(x.body[0], ast.Break) for x in scan[0].body)
    chk.verdict(R, 'verb.invoke delimiter', ok and ok2,
                'the \\verb delimiter must be the token read from the input (re-assigned only for a begin-group): %s; coercing it to '
                'another token class makes letter delimiters (\\verb xabcx) never match' % asg, chk.where(fn))
    dg = m.func('plasTeX.Base.LaTeX.Verbatim', 'verb.digest')
    chk.analysed(dg)
    src = text(dg.node)
    ok = 'endpattern = next(iter(tokens))' in src and 'if tok == endpattern: break' in src.replace('\n', ' ').replace('    ', ' ').replace('  ', ' ') or \
        ('endpattern = next(iter(tokens))' in src and any(isinstance(x, ast.If) and text(x.test) == 'tok == endpattern' for x in ast.walk(dg.node)))
    chk.verdict(R, 'verb.digest stops at the delimiter', ok, 'verb.digest must take the delimiter from the stream and stop at its second occurrence', chk.where(dg))


def r117(chk, m):
    R = chk.rule('R11.7', 'the math-shift tracker is a stack: a box argument pushes its own sentinel before parsing and pops it '
                 '(last in, first out) afterwards', 1)
    fn = m.func('plasTeX.Base.TeX.Primitives', 'BoxCommand.parse')
    chk.analysed(fn)

    def tr(n, v):
        if isinstance(n, ast.Call):
            nm = M.call_name(n)
            if nm.endswith('inEnv.append'):
                return v + ('append(%s)' % text(n.args[0]),)
            if nm.endswith('inEnv.pop'):
                return v + ('pop(%s)' % ','.join(text(a) for a in n.args),)
            if re.search(r'inEnv\.(remove|clear|insert|__delitem__)$', nm):
                return v + (nm.split('.')[-1],)
            if nm == 'Command.parse':
                return v + ('parse',)
        return v
    normal, raised = flow.function_exits(fn.node, (), tr)
    chk.verdict(R, 'BoxCommand.parse: append(None) ... parse ... pop()', normal == {('append(None)', 'parse', 'pop()')},
                'BoxCommand.parse manipulates MathShift.inEnv as %s; it must push its sentinel, parse, and pop the last entry - '
                'removing by value takes the sentinel of an enclosing box, so the $ that closes a formula inside nested boxes opens a new one'
                % sorted(normal), chk.where(fn))


def r118(chk, m):
    R = chk.rule('R11.8', 'source reconstruction is linear: Macro.parse appends the source of every argument exactly once, in order; '
                 'sourceChildren joins the source of every child in order', 3)
    fn = m.func('plasTeX', 'Macro.parse')
    chk.analysed(fn)
    loops = [n for n in M.walk_no_nested(fn.node) if isinstance(n, ast.For) and text(n.iter) == 'self.arguments']
    need(len(loops) == 1, 'Macro.parse: argument loop not found')
    body = loops[0].body
    srcs = [s for s in body if isinstance(s, ast.AugAssign) and text(s.target) == 'self.argSource']
    reads = [s for s in body if isinstance(s, ast.Assign) and 'tex.readArgumentAndSource' in text(s.value)]
    ok = len(srcs) == 1 and text(srcs[0].value) == 'source' and len(reads) == 1 and text(reads[0].targets[0]).replace(' ', '') in ('(output,source)', 'output,source') \
        and body.index(reads[0]) < body.index(srcs[0])
    stores = [s for s in body if isinstance(s, ast.Assign) and text(s.targets[0]) == 'self.attributes[arg.name]' and text(s.value) == 'output']
    reset = any(isinstance(s, ast.Assign) and text(s.targets[0]) == 'self.argSource' and text(s.value) == "''" for s in fn.node.body)
    chk.verdict(R, 'Macro.parse records every argument source once', ok and len(stores) == 1 and reset,
                'per argument, parse must read (output, source), append source to argSource and bind attributes[name] = output, unconditionally', chk.where(fn))
    sc = m.module('plasTeX').functions.get('sourceChildren')
    need(sc is not None, 'sourceChildren not found')
    chk.analysed(sc)
    src = text(sc.node)
    ok = "''.join([x.source for x in o.childNodes])" in src
    chk.verdict(R, 'sourceChildren joins every child source in order', ok, 'sourceChildren must join x.source over o.childNodes', chk.where(sc))
    ms = m.cls('plasTeX', 'Macro').properties['source']['get']
    chk.analysed(ms)
    s2 = text(ms.node)
    ok = "'%sbegin{%s}%s' % (escape, name, argSource)" in s2 and "'%s%send{%s}' % (sourceChildren(self), escape, name)" in s2 and \
        "'%send{%s}' % (escape, name)" in s2 and "s = '%s%s%s' % (escape, name, argSource)" in s2
    chk.verdict(R, 'Macro.source forms', ok, 'Macro.source must spell \\begin{name}args children \\end{name}, \\end{name}, and \\name args children', chk.where(ms))
