"""C11 - Verbatim text and mathematics pass through character-for-character.

R11.1 the verbatim scan interpreted on scripted character streams (protocol order, end markers, partial end markers),
R11.2 verbatim category table, R11.4 no substitutions initiated in verbatim/math (= R7.5), R11.6 the \\verb scan on scripted
streams, R11.7 the math-shift tracker is a stack, R11.8 source reconstruction interpreted on DOM heaps (every argument and
every child contributes its source exactly once, in order)."""
import ast
import re

from .. import absint as A
from .. import flow
from .. import model as M
from ..report import AnalysisError, need
from ..util import text
from . import domheap as D


def check(chk):
    m = chk.model
    r111(chk, m)
    r112(chk, m)
    from . import c07
    c07.r75(chk, m)
    r116(chk, m)
    r117(chk, m)
    r118(chk, m)
    r119(chk, m)
    from . import shared, c02
    shared.category_sequence_rules(chk, m, 'R11.10')      # the verbatim codes are in force for every character read after the switch
    c02.r23(chk, m, rule_id='R11.11')                     # "with user macros expanded": optional arguments of user macros
    chk.decline('token-for-token equality of the reconstructed math source with the author\'s formula for every formula '
                '(composition of per-node source properties over arbitrary trees is a runtime value)')


class VerbHooks(D.DomHooks):
    """Verbatim scans on the DOM heap: the TeX object is a token stream, context operations are events stamped with the
    number of tokens consumed so far, switching to verbatim codes replaces the category table of the scripted context."""

    def _classes(self, v):
        if isinstance(v, M.ClassInfo):
            return [v]
        if isinstance(v, (tuple, list)) and v and all(isinstance(x, M.ClassInfo) for x in v):
            return list(v)
        return None

    def call(self, interp, node, fname, args, kwargs, state):
        if fname == 'isinstance' and len(args) == 2 and self._classes(args[1]) is not None:
            c = None
            if isinstance(args[0], A.Obj):
                c = args[0].cls
            elif isinstance(args[0], A.TextObj):
                c = args[0].attrs.get('__cls')
            elif args[0] is None or isinstance(args[0], (str, int, list, dict)):
                return False
            if isinstance(args[0], (A.Obj, A.TextObj)):
                if isinstance(c, M.ClassInfo):
                    mro = self.model.mro(c)
                    return any(k in mro for k in self._classes(args[1]))
                return False
        ev = state.env.setdefault('__events', [])
        tex = state.env.get('__tex', state.env.get('tex'))        # (the stream of the scenario, also from inside helpers that have no `tex`)
        used = tex.pos if isinstance(tex, A.Stream) else -1
        mo = re.search(r'\.context\.(pop|push|setVerbatimCatcodes)$', fname)
        if mo:
            ev.append((mo.group(1), used))
            if mo.group(1) == 'setVerbatimCatcodes':
                ctx = state.env.get('__ctx')
                if isinstance(ctx, A.Obj):
                    ctx.attrs['categories'] = [''] * 16
            return A.NONE
        if isinstance(node.func, ast.Attribute):
            attr = node.func.attr
            recv_name = node.func.value.id if isinstance(node.func.value, ast.Name) else None
            if attr in ('preArgument', 'postArgument', 'preParse', 'postParse') and recv_name == 'self':
                ev.append((attr, used))       # counter / label events around the arguments: not part of the source
                return A.NONE
            if attr == 'parse' and recv_name == 'self' and len(args) == 1:
                ev.append(('parse', used))
                return A.NONE
            if attr == 'invoke' and len(args) == 1 and recv_name is not None and recv_name != 'self':
                recv = state.env.get(recv_name)
                if isinstance(recv, A.Obj):
                    ev.append(('invoke:%s' % recv.attrs.get('nodeName'), used))
                    return A.NONE
            recv = state.env.get(recv_name) if recv_name else None
            if isinstance(recv, A.Stream):
                if attr == 'pushToken' and len(args) == 1:
                    recv.push(args[0])
                    return A.NONE
                if attr == 'pushTokens' and len(args) == 1 and isinstance(args[0], (list, tuple)):
                    for x in reversed(list(args[0])):
                        recv.push(x)
                    return A.NONE
                if attr == 'readArgumentAndSource':
                    k = state.env.get('__nargs', 0)
                    state.env['__nargs'] = k + 1
                    ev.append(('read:%s' % kwargs.get('name'), used))
                    return (A.Obj('value%d' % k, {}), '{src%d}' % k)
        if fname in ('Other', 'Tokenizer.Other') and len(args) == 1 and isinstance(args[0], str):
            return A.TextObj(str(args[0]), label='Other(%s)' % args[0], __cls=self.model.cls('plasTeX.Tokenizer', 'Other'), nodeType=D.TEXT, __eqkey=('tok', 12, str(args[0])), catcode=12,
                             isElementContentWhitespace=False, parentNode=None, ownerDocument=None)
        return D.DomHooks.call(self, interp, node, fname, args, kwargs, state)


def vrun(m, fn, env, cls, filt=None, max_iter=12):
    h = VerbHooks(m, cls)
    if filt is not None:
        h.should_inline = filt
    it = A.Interp(model=m, scope=fn, hooks=h, max_iter=max_iter, exc_edges=False, inline=14, heap=True, precise_exc=True, max_states=20000)
    outs = it.run_function(fn, env=env)
    if it.imprecise:
        raise D.Imprecise('; '.join(sorted(set(it.imprecise))[:3]))
    if it.unknown_branches:
        raise D.Imprecise('the outcome of a test is not determined on this heap: ' + '; '.join(sorted(set(it.unknown_branches))[:3]))
    return outs


def chars(d, s):
    """character tokens as the tokenizer makes them under verbatim codes: letters are Letter tokens, everything else Other;
    two tokens are equal when category and character agree (Token.__eq__), a token equals a plain string by its character"""
    T = d.m.cls('plasTeX.Tokenizer', 'Letter'), d.m.cls('plasTeX.Tokenizer', 'Other')
    out = []
    for c in s:
        letter = c.isalpha()
        out.append(A.TextObj(c, label=c, __cls=T[0] if letter else T[1], __eqkey=('tok', 11 if letter else 12, c), nodeType=D.TEXT, catcode=11 if letter else 12,
                             isElementContentWhitespace=not c.strip(), parentNode=None, ownerDocument=d.doc, attributes=None, nodeName='#text'))
    return out


def show(x, me=None):
    if x is me and me is not None:
        return 'self'
    if isinstance(x, A.TextObj):
        return str(x) if str(x).strip() else {' ': 'SP', '\n': 'NL', '\t': 'TAB'}.get(str(x), repr(str(x)))
    if isinstance(x, A.Obj):
        return '<%s>' % (x.attrs.get('nodeName') or x.label)
    if isinstance(x, str):
        return x
    return repr(x)


def verb_scene(m, cls, name, mode, currenvir, body):
    d = D.Dom(m)
    Macro = m.cls('plasTeX', 'Macro')
    ctx = A.Obj('context', {'categories': ['\\', '{', '}', '$', '&', '\n', '#', '^', '_', '\x00', ' ', 'abc', '', '~', '%', '\x7f'], 'currenvir': currenvir})
    d.doc.attrs['context'] = ctx
    parent = d.elem('parent')
    me = d.elem('self', parent=parent)
    me.cls = cls
    me.attrs.update(nodeName=name, macroMode=m.class_const(Macro, mode), attributes={}, argSource='')
    tex = A.Stream(chars(d, body))
    return {'self': me, 'tex': tex, '__tex': tex, '__ctx': ctx, '__me': me, '__parent': parent}


def r111(chk, m, rule_id='R11.1'):
    R = chk.rule(rule_id, 'the verbatim scan interpreted on scripted character streams: the frame is pushed, the arguments parsed and '
                 'the verbatim codes installed before the first character is read; every character up to the end marker is returned, '
                 'in order (partial end markers, backslashes and braces included); the frame is popped and the end token re-inserted '
                 'exactly at the end marker - for \\end{name} and for \\endname', 8)
    VE = m.cls('plasTeX', 'VerbatimEnvironment')
    fn = m.find_method(VE, 'invoke')
    chk.analysed(fn)
    E = '\\'
    cases = [('a body ended by \\end{verbatim}', 'verbatim', 'MODE_BEGIN', 'verbatim', 'ab' + E + 'end{verbatim}xy', 'ab', 'xy'),
             ('special characters in the body', 'verbatim', 'MODE_BEGIN', 'verbatim', 'a%{ $' + E + '}\n  b' + E + 'end{verbatim}', 'a%{ $' + E + '}\n  b', ''),
             ('a partial end marker in the body', 'verbatim', 'MODE_BEGIN', 'verbatim', E + 'end{verb}' + E + 'end' + E + 'end{verbatim}z', E + 'end{verb}' + E + 'end', 'z'),
             ('a backslash right before the end marker', 'verbatim', 'MODE_BEGIN', 'verbatim', 'a' + E + E + 'end{verbatim}', 'a' + E, ''),
             ('an environment invoked under another name', 'verbatim', 'MODE_BEGIN', 'myverb', 'a' + E + 'end{verbatim}b' + E + 'end{myverb}c', 'a' + E + 'end{verbatim}b', 'c'),
             ('the command form ended by \\endverbatim', 'verbatim', 'MODE_NONE', None, 'ab' + E + 'end{x}' + E + 'endverbatim q', 'ab' + E + 'end{x}', ' q'),
             ('an empty body', 'verbatim', 'MODE_BEGIN', 'verbatim', E + 'end{verbatim}r', '', 'r'),
             ('a body that starts with the tail of the end marker', 'verbatim', 'MODE_BEGIN', 'verbatim', 'm}x' + E + 'end{verbatim}t', 'm}x', 't'),
             ('a body of one closing brace', 'verbatim', 'MODE_BEGIN', 'verbatim', '}' + E + 'end{verbatim}', '}', ''),
             ('the command form with a body that starts with the tail of its end marker', 'verbatim', 'MODE_NONE', None, 'tim' + E + 'endverbatim u', 'tim', ' u'),
             ('a body that mentions the begin of its own environment', 'verbatim', 'MODE_BEGIN', 'verbatim', 'x' + E + 'begin{verbatim}y' + E + 'end{verbatim}z' + E + 'end{verbatim}',
              'x' + E + 'begin{verbatim}y', 'z' + E + 'end{verbatim}'),
             ('the starred environment', 'verbatim*', 'MODE_BEGIN', 'verbatim*', 'a*' + E + 'end{verbatim}' + E + 'end{verbatim*}s', 'a*' + E + 'end{verbatim}', 's')]
    for label, name, mode, cur, body, want_body, want_left in cases:
        env = verb_scene(m, VE, name, mode, cur, body)
        endname = cur if (mode != 'MODE_NONE' and cur is not None) else name
        marker_end = len(body) - len(want_left)

        def fmt(s, v):
            me = s.env['__me']
            ev = s.env.get('__events', [])
            pre = ' '.join(e[0] for e in ev if e[1] == 0)
            post = ' '.join('%s@%d' % e for e in ev if e[1] != 0)
            toks = ' '.join(show(x, me) for x in v) if isinstance(v, list) else repr(v)
            left = s.env['tex'].items[s.env['tex'].pos:]
            lt = []
            for x in left:
                if isinstance(x, A.Obj):
                    lt.append('<%s parent=%s mode=%s>' % (x.attrs.get('nodeName'), D.label_of(x.attrs.get('parentNode')) if x.attrs.get('parentNode') is not None else None,
                                                          x.attrs.get('macroMode')))
                else:
                    lt.append(show(x))
            return 'before the first character: %s | returned: %s | then: %s | stream: %s' % (pre, toks, post, ' '.join(lt))
        END = m.class_const(m.cls('plasTeX', 'Macro'), 'MODE_END')
        d2 = D.Dom(m)
        want = 'before the first character: push parse setVerbatimCatcodes | returned: %s | then: pop@%d invoke:%s@%d | stream: %s' % (
            ' '.join(['self'] + [show(x) for x in chars(d2, want_body)]), marker_end, endname, marker_end,
            ' '.join(['<%s parent=parent mode=%s>' % (endname, END)] + [show(x) for x in chars(d2, want_left)]))
        try:
            outs = vrun(m, fn, env, VE, max_iter=len(body) + 4)
        except D.Imprecise as e:
            chk.undecided(R, label, str(e), chk.where(fn))
            continue
        got = {fmt(s, v) for kind, s, v in outs if kind == 'return'} | {'raises %s' % (v,) for kind, s, v in outs if kind == 'raise'}
        chk.decide(R, label, got, {want}, 'verbatim scan of %r: %s; expected %s' % (body, sorted(got), want), chk.where(fn), want)
    # the end of the environment does nothing
    env = verb_scene(m, VE, 'verbatim', 'MODE_END', 'verbatim', 'xy')
    try:
        outs = vrun(m, fn, env, VE)
        got = {'returns %r events %s consumed %d' % (v, s.env.get('__events', []), s.env['tex'].pos) for kind, s, v in outs}
        chk.decide(R, 'the end token of the environment', got, {'returns None events [] consumed 0'},
                   'invoked as the end of the environment the scan must do nothing: %s' % sorted(got), chk.where(fn))
    except D.Imprecise as e:
        chk.undecided(R, 'the end token of the environment', str(e), chk.where(fn))


def r112(chk, m):
    R = chk.rule('R11.2', 'verbatim category table: every class empty except letters; setVerbatimCatcodes puts a copy of it in force in '
                 'the innermost frame only (decided on the context heap shared with C04)', 2)
    from .c01 import module_env
    from . import c04
    tokmod = m.module('plasTeX.Tokenizer')
    # the table as the Tokenizer module sees it (defined there or imported from wherever it lives)
    it0 = A.Interp(model=m, scope=tokmod, exc_edges=False, heap=True)
    v = it0.ev(ast.Name(id='VERBATIM_CATEGORIES', ctx=ast.Load()), A.State({}))
    if not isinstance(v, list):
        chk.undecided(R, 'VERBATIM_CATEGORIES', 'the value of VERBATIM_CATEGORIES is not determined', chk.where(tokmod))
    else:
        ok = len(v) == 16 and all(x == '' for i, x in enumerate(v) if i != 11) and isinstance(v[11], M._StringLetters)
        chk.verdict(R, 'VERBATIM_CATEGORIES', ok, 'VERBATIM_CATEGORIES must be empty everywhere except LETTER: %r' % (v,), chk.where(tokmod))
    sv = m.func('plasTeX.Context', 'Context.setVerbatimCatcodes')
    chk.analysed(sv)
    res = []
    for nfr, sharing in ((1, 'G'), (2, 'GG'), (2, 'GS'), (3, 'GSS')):
        res += c04.cow_outcomes(m, sv, {}, nfr, sharing)
    need(res, 'setVerbatimCatcodes has no normal exit')
    got = set()
    for ps, cur, s in res:
        orig = s.env.get('__mod_VERBATIM_CATEGORIES_orig')
        if ps:
            got.update(ps)
        elif not isinstance(cur, list) or orig is None:
            got.add('TOP')
        elif tuple(cur) != tuple(orig):
            got.add('another table is in force')
        else:
            got.add('the verbatim table, in the innermost frame only')
    chk.decide(R, 'setVerbatimCatcodes installs a copy in the innermost frame', got, {'the verbatim table, in the innermost frame only'},
               'after setVerbatimCatcodes: %s' % sorted(got), chk.where(sv))


def r116(chk, m):
    R = chk.rule('R11.6', '\\verb interpreted on scripted streams: the delimiter is the first token as read (any character, letters '
                 'included; a begin-group stands for the closing brace), everything up to its next occurrence is returned in order and '
                 'nothing beyond is read; digest keeps exactly the tokens between the delimiters', 7)
    V = m.cls('plasTeX.Base.LaTeX.Verbatim', 'verb')
    fn = m.find_method(V, 'invoke')
    dg = m.find_method(V, 'digest')
    chk.analysed(fn)
    chk.analysed(dg)
    E = '\\'
    cases = [('| as delimiter', '|a b|xy', '| a SP b |', 'x y', '|'), ('a letter as delimiter', 'xabcxyz', 'x a b c x', 'y z', 'x'),
             ('special characters between the delimiters', '+' + E + '{%$ }+q', '+ ' + E + ' { % $ SP } +', 'q', '+'),
             ('empty content', '!!r', '! !', 'r', '!'), ('a blank as part of the content', '= =t', '= SP =', 't', '=')]
    for label, body, want_toks, want_left, delim in cases:
        env = verb_scene(m, V, 'verb', 'MODE_NONE', None, body)

        def fmt(s, v):
            me = s.env['__me']
            ev = s.env.get('__events', [])
            pre = ' '.join(e[0] for e in ev if e[1] == 0)
            post = ' '.join('%s@%d' % e for e in ev if e[1] != 0)
            return 'before the first character: %s | returned: %s | then: %s | stream: %s | delimiter: %s' % (
                pre, ' '.join(show(x, me) for x in v) if isinstance(v, list) else repr(v), post,
                ' '.join(show(x) for x in s.env['tex'].items[s.env['tex'].pos:]), show(me.attrs.get('delimiter')))
        want = 'before the first character: push parse setVerbatimCatcodes | returned: self %s | then: pop@%d | stream: %s | delimiter: %s' % (
            want_toks, len(body) - len(want_left.split()), want_left, delim)
        try:
            outs = vrun(m, fn, env, V, max_iter=len(body) + 4)
        except D.Imprecise as e:
            chk.undecided(R, 'verb.invoke: ' + label, str(e), chk.where(fn))
            continue
        got = {fmt(s, v) for kind, s, v in outs if kind == 'return'} | {'raises %s' % (v,) for kind, s, v in outs if kind == 'raise'}
        chk.decide(R, 'verb.invoke: ' + label, got, {want}, '\\verb scan of %r: %s; expected %s' % (body, sorted(got), want), chk.where(fn), want)
    # a begin-group delimiter
    env = verb_scene(m, V, 'verb', 'MODE_NONE', None, 'ab}c')
    d = D.Dom(m)
    bg = d.elem('bgroup')
    bg.cls = m.cls('plasTeX.Base.TeX.Text', 'bgroup')
    env['tex'].items.insert(0, bg)
    try:
        outs = vrun(m, fn, env, V, max_iter=10)
        got = {'%s | %s | %s' % (' '.join(show(x, s.env['__me']) for x in v) if isinstance(v, list) else repr(v),
                                 ' '.join(show(x) for x in s.env['tex'].items[s.env['tex'].pos:]), show(s.env['__me'].attrs.get('delimiter')))
               for kind, s, v in outs if kind == 'return'} | {'raises %s' % (v,) for kind, s, v in outs if kind == 'raise'}
        chk.decide(R, 'verb.invoke: a group as delimiter', got, {'self } a b } | c | }'}, '\\verb{ab}c: %s' % sorted(got), chk.where(fn))
    except D.Imprecise as e:
        chk.undecided(R, 'verb.invoke: a group as delimiter', str(e), chk.where(fn))
    # digest
    for label, body, want_kids, want_left in (('content between the delimiters', '|ab|cd', 'a b', 'c d'), ('empty content', '!!r', '', 'r'),
                                             ('a letter as delimiter', 'xabxx', 'a b', 'x')):
        d = D.Dom(m)
        me = d.elem('self')
        me.cls = V
        st = A.Stream(chars(d, body))
        try:
            outs = vrun(m, dg, {'self': me, 'tokens': st, '__me': me}, V, max_iter=10)
        except D.Imprecise as e:
            chk.undecided(R, 'verb.digest: ' + label, str(e), chk.where(dg))
            continue
        got = {'children: %s | stream: %s' % (' '.join(show(x) for x in D.children(s.env['__me']) or []),
                                             ' '.join(show(x) for x in s.env['tokens'].items[s.env['tokens'].pos:]))
               for kind, s, v in outs if kind == 'return'} | {'raises %s' % (v,) for kind, s, v in outs if kind == 'raise'}
        chk.decide(R, 'verb.digest: ' + label, got, {'children: %s | stream: %s' % (want_kids, want_left)},
                   'verb.digest of %r: %s' % (body, sorted(got)), chk.where(dg))


def box_discipline(m, pf, cls):
    """The parse method `pf` of a box class interpreted on a math-shift tracker that already holds an enclosing box's sentinel and
    an open formula: (tracker while the argument is parsed, tracker afterwards) per path, as tuples of 'None' / 'formula'."""
    from ..util import SelfHooks
    key = '__cls:plasTeX.Base.TeX.Primitives.MathShift.inEnv'
    need(m.cls('plasTeX.Base.TeX.Primitives', 'MathShift') is not None and 'inEnv' in m.cls('plasTeX.Base.TeX.Primitives', 'MathShift').assigns,
         'MathShift.inEnv (the math-shift tracker) was not found')
    show = lambda lst: tuple('None' if x is None else getattr(x, 'label', repr(x)) for x in lst) if isinstance(lst, list) else ('TOP',)

    class BH(SelfHooks):
        def lookup(self, interp, name, state):
            return None

        def should_inline(self, fname, node, info):
            return not (info is not None and info.name == 'parse' and info is not pf)

        def call(self, interp, node, fname, args, kwargs, state):
            if fname.endswith('.parse'):
                state.env['__during'] = state.env.get('__during', ()) + (show(state.env.get(key)),)
                return A.Sym('parsed-arguments', truthy=True)
            return None
    generic = m.find_method(m.cls('plasTeX', 'Macro'), 'parse')
    if pf is generic and not any(isinstance(x, ast.Attribute) and x.attr == 'inEnv' for x in ast.walk(pf.node)):
        # the argument parser every macro shares: it never mentions the tracker, so the box has no sentinel of its own
        return {('return', (('None', 'formula'),), ('None', 'formula'))}, 0
    h = BH(m, cls)
    h.keep = lambda ev: False
    it = A.Interp(model=m, scope=pf, hooks=h, max_iter=4, exc_edges=False, inline=4, heap=True, precise_exc=True)
    me = A.Obj('box', {'attributes': A.Obj('attributes', {})}, cls=cls)
    outs = it.run_function(pf, env={'self': me, 'tex': A.Sym('tex', truthy=True), key: [None, A.Obj('formula', {})]})
    res = set()
    for kind, s2, v in outs:
        res.add((kind if kind != 'raise' else 'raise %s' % v, s2.env.get('__during', ()), show(s2.env.get(key))))
    if it.unknown_branches or it.imprecise:
        res.add(('TOP: %s' % (it.unknown_branches + it.imprecise)[0], (), ()))
    return res, len(outs)


BOX_WANT = {('return', (('None', 'formula', 'None'),), ('None', 'formula'))}


def r117(chk, m):
    R = chk.rule('R11.7', 'the math-shift tracker is a stack, interpreted: BoxCommand.parse run on a tracker that holds an enclosing box\'s '
                 'sentinel and an open formula has its own sentinel on top while the argument is parsed and leaves the tracker as it found it', 1)
    fn = m.func('plasTeX.Base.TeX.Primitives', 'BoxCommand.parse')
    chk.analysed(fn)
    got, n = box_discipline(m, fn, fn.cls)
    chk.paths += n
    chk.decide(R, 'BoxCommand.parse: append(None) ... parse ... pop()', got, BOX_WANT,
               'BoxCommand.parse run on the tracker [None, formula] gives (outcome, tracker during the argument, tracker afterwards) = %s; it must push '
               'its sentinel, parse, and pop the last entry - removing by value takes the sentinel of an enclosing box, so the $ that closes a '
               'formula inside nested boxes opens a new one' % sorted(got), chk.where(fn))
    # the text boxes of LaTeX (confirmed on the reference tree): each parses its argument under its own sentinel and in text mode
    R2 = chk.rule('R11.7b', 'every text box that can stand inside a formula (\\mbox, \\hbox, \\vbox and the \\text.. font commands) parses its '
                  'argument under its own math-shift sentinel and is not in math mode, so that a $ inside the box opens a formula '
                  'instead of closing the enclosing one', 13)
    verdicts = {}
    for name in TEXT_BOXES:
        cands = [c for c in m.all_classes if c.module.name.startswith('plasTeX.Base.') and (c.name == name or m.class_const(c, 'macroName', None) == name)
                 and c.outer is None]
        need(cands, 'the class of \\%s was not found in plasTeX.Base' % name)
        for c in cands:
            pf = m.find_method(c, 'parse')
            need(pf is not None, '%s.parse not resolved' % c.fullname)
            if pf.fullname not in verdicts:
                chk.analysed(pf)
                verdicts[pf.fullname], n = box_discipline(m, pf, c)
                chk.paths += n
            got = verdicts[pf.fullname]
            mm = m.class_const(c, 'mathMode', None)
            chk.decide(R2, 'text box \\%s' % name, {g + (repr(mm),) for g in got}, {g + ('False',) for g in BOX_WANT},
                       '\\%s parses its argument through %s (outcome, math-shift tracker during and after: %s; mathMode %r): a $ inside the box is taken '
                       'as the end of the enclosing formula' % (name, pf.fullname, sorted(got), mm), chk.where(c))


TEXT_BOXES = ('mbox', 'hbox', 'vbox', 'textmd', 'textbf', 'textrm', 'textsf', 'texttt', 'textup', 'textit', 'textsl', 'textsc', 'textnormal')


def r118(chk, m):
    R = chk.rule('R11.8', 'source reconstruction interpreted on DOM heaps: Macro.parse appends the source of every argument exactly '
                 'once, in order, and binds every value under its name; sourceChildren joins the source of every child (of every '
                 'paragraph\'s child) in order; Macro.source spells \\begin{name}args children \\end{name}, \\end{name} and \\name args '
                 'children with each part exactly once', 12)
    Macro = m.cls('plasTeX', 'Macro')
    parse = m.find_method(Macro, 'parse')
    chk.analysed(parse)
    BEGIN, END, NONE_ = (m.class_const(Macro, k) for k in ('MODE_BEGIN', 'MODE_END', 'MODE_NONE'))

    def macro(d, name, mode, argsource, kids=(), attributes=None, childlist=True):
        me = d.elem('self', childlist=childlist)
        me.cls = Macro
        me.attrs.update(nodeName=name, macroMode=mode, argSource=argsource, attributes=attributes if attributes is not None else {})
        for i, k in enumerate(kids):
            c = d.elem('child%d' % i)
            c.attrs['source'] = k
            c.attrs['parentNode'] = me
            me.attrs['_dom_childNodes'].append(c)
        return me
    # (a) parse
    for label, nargs, mode in (('three arguments', 3, NONE_), ('one argument', 1, BEGIN), ('no arguments', 0, NONE_), ('the end of an environment', 2, END)):
        d = D.Dom(m)
        me = macro(d, 'foo', mode, 'stale')
        me.attrs['arguments'] = [A.Obj('arg%d' % i, {'name': 'n%d' % i, 'options': {'type': 'x'} if i == 1 else {}}) for i in range(nargs)]
        me.attrs['args'] = ' '.join('n%d' % i for i in range(nargs))
        tex = A.Stream([])
        try:
            outs = vrun(m, parse, {'self': me, 'tex': tex, '__me': me}, Macro, filt=lambda fname, node, info: info is None or getattr(node, 'name', '') not in ('error', 'warning'))
        except D.Imprecise as e:
            chk.undecided(R, 'Macro.parse: ' + label, str(e), chk.where(parse))
            continue

        def fmt(s, v):
            me2 = s.env['__me']
            at = me2.attrs.get('attributes')
            return 'argSource=%s attributes=%s reads=%s' % (me2.attrs.get('argSource'),
                                                           ' '.join('%s:%s' % (k, D.label_of(x)) for k, x in at.items()) if isinstance(at, dict) else repr(at),
                                                           ' '.join(e[0] for e in s.env.get('__events', []) if e[0].startswith('read:')))
        got = {fmt(s, v) for kind, s, v in outs if kind == 'return'} | {'raises %s' % (v,) for kind, s, v in outs if kind == 'raise'}
        if mode == END:
            want = 'argSource=stale attributes= reads='
        elif nargs == 0:
            want = 'argSource=stale attributes= reads='
        else:
            want = 'argSource=%s attributes=%s reads=%s' % (''.join('{src%d}' % i for i in range(nargs)), ' '.join('n%d:value%d' % (i, i) for i in range(nargs)),
                                                          ' '.join('read:n%d' % i for i in range(nargs)))
        if nargs == 0 and mode != END:
            # a macro without arguments keeps or clears its argument source; nothing is read
            ok = all(g.endswith('attributes= reads=') and g.split(' ')[0] in ('argSource=stale', 'argSource=') for g in got) and got
            if ok:
                chk.ok(R, 'Macro.parse: ' + label, str(sorted(got)))
                continue
        chk.decide(R, 'Macro.parse: ' + label, got, {want}, 'Macro.parse with %d argument(s): %s; expected %s' % (nargs, sorted(got), want), chk.where(parse))
    # (b) sourceChildren
    sc = m.func_or_none('plasTeX', 'sourceChildren')
    need(sc is not None, 'sourceChildren not found')
    chk.analysed(sc)
    for label, par, want in (('children in order', True, 'ABC'), ('paragraph level skipped', False, 'abcd')):
        d = D.Dom(m)
        if par:
            o = macro(d, 'x', NONE_, '', kids=['A', 'B', 'C'])
        else:
            o = macro(d, 'x', NONE_, '')
            for i, grand in enumerate((['a', 'b'], ['c', 'd'])):
                p = d.elem('par%d' % i, parent=o)
                for j, g in enumerate(grand):
                    c = d.elem('g%d%d' % (i, j), parent=p)
                    c.attrs['source'] = g
                    p.attrs['_dom_childNodes'].append(c)
                o.attrs['_dom_childNodes'].append(p)
        try:
            outs = vrun(m, sc, {'o': o, 'par': par}, Macro)
        except D.Imprecise as e:
            chk.undecided(R, 'sourceChildren: ' + label, str(e), chk.where(sc))
            continue
        got = {repr(v) for kind, s, v in outs if kind == 'return'} | {'raises %s' % (v,) for kind, s, v in outs if kind == 'raise'}
        chk.decide(R, 'sourceChildren: ' + label, got, {repr(want)}, 'sourceChildren gives %s, expected %r' % (sorted(got), want), chk.where(sc))
    d = D.Dom(m)
    o = macro(d, 'x', NONE_, '', childlist=False)
    try:
        outs = vrun(m, sc, {'o': o, 'par': True}, Macro)
        got = {repr(v) for kind, s, v in outs if kind == 'return'} | {'raises %s' % (v,) for kind, s, v in outs if kind == 'raise'}
        chk.decide(R, 'sourceChildren: no children', got, {repr('')}, 'sourceChildren of a node without children gives %s' % sorted(got), chk.where(sc))
    except D.Imprecise as e:
        chk.undecided(R, 'sourceChildren: no children', str(e), chk.where(sc))
    # (c) Macro.source
    ms = Macro.properties['source']['get']
    chk.analysed(ms)
    E = '\\'
    cases = [('an environment with arguments and children', ('tabular', BEGIN, '{ll}', ['A', 'B'], None, True), E + 'begin{tabular}{ll}AB' + E + 'end{tabular}'),
             ('an environment without arguments', ('center', BEGIN, '', ['A', 'B'], None, True), E + 'begin{center} AB' + E + 'end{center}'),
             ('the begin token alone', ('center', BEGIN, '', [], None, False), E + 'begin{center} '),
             ('the end of an environment', ('center', END, '', [], None, False), E + 'end{center}'),
             ('a command with a self argument', ('textbf', NONE_, '{x}', ['X'], {'self': 1}, True), E + 'textbf{x}'),
             ('a command without arguments', ('alpha', NONE_, '', [], None, False), E + 'alpha '),
             ('an argument that starts with a letter', ('foo', NONE_, 'x', [], None, False), E + 'foo x'),
             ('a one-character command before a letter', (',', NONE_, 'x', [], None, False), E + ',x'),
             ('an active character', ('active::~', NONE_, '', [], None, False), '~ '),
             ('a command that absorbed children', ('section', NONE_, '[o]{t}', ['A', 'B'], {'toc': 1, 'title': 2}, True), E + 'section[o]{t}AB')]
    for label, (name, mode, argsrc, kids, attributes, cl), want in cases:
        d = D.Dom(m)
        me = macro(d, name, mode, argsrc, kids=kids, attributes=attributes, childlist=cl)
        try:
            outs = vrun(m, ms, {'self': me}, Macro)
        except D.Imprecise as e:
            chk.undecided(R, 'Macro.source: ' + label, str(e), chk.where(ms))
            continue
        got = {repr(v) for kind, s, v in outs if kind == 'return'} | {'raises %s' % (v,) for kind, s, v in outs if kind == 'raise'}
        chk.decide(R, 'Macro.source: ' + label, got, {repr(want)}, 'the source of %s is %s, expected %r' % (label, sorted(got), want), chk.where(ms))


def r119(chk, m):
    """Macros that rewrite their own argument source: only the spelling they are meant to normalise is touched."""
    R = chk.rule('R11.9', 'macros that rewrite their recorded argument source (sized delimiters: \\left< becomes \\left\\langle) touch only '
                 'the delimiters < and >: for every other delimiter - characters, and control sequences whose text is empty - the source '
                 'stays what the author wrote (interpreted on the heap)', 6)
    try:
        ARD = m.cls('plasTeX.Base.LaTeX.Math', 'AngleReplacingDelimiter')
    except AnalysisError:
        ARD = None
    need(ARD is not None, 'AngleReplacingDelimiter not found')
    fn = m.find_method(ARD, 'invoke')
    chk.analysed(fn)
    cases = [('<', '\\langle '), ('>', '\\rangle '), ('(', None), ('|', None), ('.', None), ('', None), ('[', None)]
    for ch, want in cases:
        d = D.Dom(m)
        me = d.elem('self')
        me.cls = ARD
        arg = d.elem('chararg')
        arg.attrs['textContent'] = d.text('tc', ch)
        me.attrs.update(attributes={'char': arg}, argSource='ORIGINAL', nodeName='left')
        tex = A.Stream([])
        label = 'delimiter %r' % ch if ch else 'a control-sequence delimiter without text (\\lfloor, \\rangle, ...)'

        def inl(fname, node, info):
            return info is None or getattr(node, 'name', '') not in ('invoke',) or info is fn
        try:
            h = VerbHooks(m, ARD)
            base_call = h.call

            def call(interp, node, fname, args, kwargs, state, base_call=base_call):
                if isinstance(node.func, ast.Attribute) and node.func.attr == 'invoke' and len(args) == 2 and isinstance(node.func.value, ast.Name) \
                   and node.func.value.id != 'self':
                    return A.NONE
                return base_call(interp, node, fname, args, kwargs, state)
            h.call = call
            it = A.Interp(model=m, scope=fn, hooks=h, max_iter=6, exc_edges=False, inline=14, heap=True, precise_exc=True, max_states=20000)
            outs = it.run_function(fn, env={'self': me, 'tex': tex, '__me': me, '__arg': arg})
            if it.imprecise:
                raise D.Imprecise('; '.join(sorted(set(it.imprecise))[:3]))
        except D.Imprecise as e:
            chk.undecided(R, label, str(e), chk.where(fn))
            continue

        def fmt(s):
            me2 = s.env['__me']
            a = me2.attrs['attributes'].get('char') if isinstance(me2.attrs.get('attributes'), dict) else None
            kids = D.children(a) if isinstance(a, A.Obj) else None
            inner = 'unchanged' if a is s.env['__arg'] else ('a fragment holding %s' % [getattr(k.cls, 'name', '?') if isinstance(k, A.Obj) else repr(k) for k in (kids or [])])
            return 'source %s, argument %s' % (me2.attrs.get('argSource'), inner)
        got = {fmt(s) for kind, s, v in outs if kind == 'return'} | {'raises %s' % (v,) for kind, s, v in outs if kind == 'raise'}
        w = 'source ORIGINAL, argument unchanged' if want is None else 'source %s, argument a fragment holding %s' % (want, ["langle" if ch == '<' else "rangle"])
        chk.decide(R, label, got, {w}, 'a sized delimiter given as %s ends with %s; expected %s - the reconstructed formula names another delimiter than '
                   'the author wrote' % (label, sorted(got), w), chk.where(fn))
