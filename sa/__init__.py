"""Static-analysis checkers for the plasTeX properties (see /verif/DESIGN.md).

Nothing in this package imports or executes plasTeX: every verdict is derived
from the source text of /repo's current working tree (ast, jinja2's parser,
html.parser)."""
