"""Engines B + C: path-sensitive abstract interpretation of a function body.

One interpreter serves both uses described in DESIGN.md:

* engine C (conditional constant propagation over a finite domain): selected
  variables are bound to concrete members of a small domain, everything else
  is TOP; conditions that fold are followed, conditions that do not fold fork;
* engine B (path facts): with nothing bound, every condition forks, and the
  result is the set of distinct event traces over all acyclic paths (loops:
  zero or a bounded number of iterations).

The interpreter never executes repository code: it walks the ast, folds
constants, records *events* (calls, yields, returns, stores) and returns, for
each way of leaving the analysed block, the abstract state and the trace.
A construct outside the modelled subset raises AnalysisError."""
import ast
import copy
import re

from .report import AnalysisError
from . import model as M


class _Top:
    def __repr__(self):
        return 'TOP'

    def __deepcopy__(self, memo):
        return self

    def __bool__(self):
        raise AnalysisError('truth value of TOP used by the checker')


TOP = _Top()
_MISSING = object()
_NONE_ITEM = object()      # the item None of an iterator (None itself means: not determined)


class Sym:
    """An opaque symbolic value with optional known facts."""
    def __init__(self, label, truthy=None, cls=None, attrs=None):
        self.label, self.truthy, self.cls = label, truthy, cls
        self.attrs = attrs or {}

    def __repr__(self):
        return 'Sym(%s)' % self.label

    def __deepcopy__(self, memo):
        return self

    def __eq__(self, other):
        return isinstance(other, Sym) and other.label == self.label

    def __hash__(self):
        return hash(('sym', self.label))


class Inst:
    """Result of calling a repository class: an instance of `cls`."""
    def __init__(self, cls, args=()):
        self.cls, self.args = cls, tuple(args)

    def __repr__(self):
        return 'Inst(%s%r)' % (getattr(self.cls, 'name', self.cls), self.args)

    def __deepcopy__(self, memo):
        return self

    def __eq__(self, other):
        return isinstance(other, Inst) and other.cls is self.cls and other.args == self.args

    def __hash__(self):
        return hash(('inst', id(self.cls)))


class TokStr(str):
    """A character token: a real string (plasTeX tokens are str subclasses) with known attributes."""
    def __new__(cls, text, **attrs):
        o = str.__new__(cls, text)
        o._attrs = attrs
        return o

    def __deepcopy__(self, memo):
        return self

    def __repr__(self):
        return 'Tok(%s)' % str.__repr__(self)


class Obj:
    """A mutable heap object with known attributes (identity matters; deep-copied
    with the state, aliasing preserved)."""
    def __init__(self, label, attrs=None, cls=None):
        self.label, self.attrs, self.cls = label, dict(attrs or {}), cls

    def __repr__(self):
        return 'Obj(%s)' % self.label

    def __eq__(self, other):
        # structural equality of the modelled objects, when the checker declares one ('__eqkey'); identity otherwise
        if isinstance(other, (Obj, TextObj)) and '__eqkey' in self.attrs and '__eqkey' in _attrs_of(other):
            return self.attrs['__eqkey'] == _attrs_of(other)['__eqkey']
        f = self.attrs.get('__dc_fields')
        if f is not None and self is not other and isinstance(other, Obj) and other.cls is self.cls and other.attrs.get('__dc_fields') == f:
            return all(self.attrs.get(k) == other.attrs.get(k) for k in f)        # the __eq__ a dataclass generates: field by field
        return self is other

    def __ne__(self, other):
        return not self.__eq__(other)

    def __hash__(self):
        return id(self)


class EnumVal(Obj):
    """A member of an enum class of the analysed code: one object per (class, name), never copied (identity is its meaning)."""
    _members = {}

    def __init__(self, cls, name, value, int_like=False):
        Obj.__init__(self, 'enum:%s.%s' % (getattr(cls, 'name', cls), name),
                     {'name': name, 'value': value, '_name_': name, '_value_': value, '__closed': True}, cls=cls)
        self.int_like = int_like

    @classmethod
    def of(cls, k, name, value, int_like=False):
        key = (getattr(k, 'fullname', repr(k)), name)
        if key not in cls._members:
            cls._members[key] = EnumVal(k, name, value, int_like)
        return cls._members[key]

    def __repr__(self):
        return '<%s: %r>' % (self.label[5:], self.attrs['value'])

    def __deepcopy__(self, memo):
        return self

    def __eq__(self, other):
        if self.int_like and isinstance(other, (int, float)) and not isinstance(other, bool):
            return self.attrs['value'] == other
        return self is other

    def __ne__(self, other):
        return not self.__eq__(other)

    def __hash__(self):
        if self.int_like:
            return hash(self.attrs['value'])           # an IntEnum member is the key its number is
        return hash(self.label)


class ListObj(list):
    """An instance of a repository class that derives from list: a real list with attributes."""
    def __init__(self, cls=None, label='list'):
        list.__init__(self)
        self.cls, self.label, self.attrs = cls, label, {}

    def __repr__(self):
        return 'ListObj(%s%s)' % (self.label, list.__repr__(self))

    def __eq__(self, other):
        return self is other

    def __ne__(self, other):
        return self is not other

    def __hash__(self):
        return id(self)


class DequeList(list):
    """collections.deque of the analysed code: a list with appendleft / popleft / extendleft / rotate (and an optional maxlen)."""
    maxlen = None

    def __deepcopy__(self, memo):
        d = DequeList()
        memo[id(self)] = d
        d.maxlen = self.maxlen
        list.extend(d, (copy.deepcopy(x, memo) for x in self))
        return d


class TextObj(str):
    """A text node: a real string (plasTeX text nodes are str subclasses) with mutable attributes; identity matters."""
    def __new__(cls, text, **attrs):
        o = str.__new__(cls, text)
        o.attrs = dict(attrs)
        return o

    def __reduce_ex__(self, protocol):
        return (_rebuild_textobj, (str(self),), {'attrs': self.attrs})

    def __repr__(self):
        return 'Text(%s:%s)' % (self.attrs.get('label', ''), str.__repr__(self))

    def __eq__(self, other):
        if isinstance(other, (Obj, TextObj)):
            a, b = self.attrs, _attrs_of(other)
            if '__eqkey' in a and '__eqkey' in b:
                return a['__eqkey'] == b['__eqkey']
            return self is other
        return str.__eq__(self, other)

    def __ne__(self, other):
        return not self.__eq__(other)

    def __hash__(self):
        return str.__hash__(self)       # like plasTeX text nodes (str subclasses): equal text, equal hash


def _rebuild_textobj(text):
    return TextObj(text)


def _attrs_of(o):
    return o.attrs


class Iter:
    """A first-class iterator over known items (iter(list)); shared by `for` and next()."""
    def __init__(self, items, pos=0, live=False):
        # live: an iterator over a list of the heap walks that very list by position, as Python's does (items removed or added while it
        # runs are skipped or met)
        self.items, self.pos = (items if live and type(items) is list else list(items)), pos

    def __repr__(self):
        return 'Iter(%r@%d)' % (self.items, self.pos)

    def take(self):
        if self.pos < len(self.items):
            self.pos += 1
            return self.items[self.pos - 1]
        return STOP


class LazyGen(Iter):
    """A generator expression over a stateful iterator (a token stream, iter(x)): its items are produced on demand, so that a
    consumer that stops early (next(), any(), a for loop with break) leaves the rest in the underlying iterator."""
    def __init__(self, node, source, closure, scope, kind='genexp', fn=None):
        self.pos = 0
        self.node, self.source, self.closure, self.scope = node, source, closure, scope
        self.kind, self.fn = kind, fn        # genexp | takewhile | dropwhile | filter | filterfalse | map | enumerate
        self.state = 0                       # takewhile: 1 = finished; dropwhile: 1 = no longer dropping; enumerate: next index

    @property
    def items(self):
        raise AnalysisError('a lazy iterator (line %s) is consumed by code that takes all items at once and does not know lazy iterators'
                            % getattr(self.node, 'lineno', '?'))

    def __repr__(self):
        return 'LazyGen(%s, line %s over %r)' % (self.kind, getattr(self.node, 'lineno', '?'), self.source)

    def __deepcopy__(self, memo):
        g = LazyGen(self.node, None, None, self.scope, self.kind, None)
        memo[id(self)] = g
        g.source, g.closure, g.fn, g.state = copy.deepcopy(self.source, memo), copy.deepcopy(self.closure, memo), copy.deepcopy(self.fn, memo), self.state
        return g

    def take(self):
        raise AnalysisError('a lazy generator expression is consumed by code that does not know it (line %s)' % getattr(self.node, 'lineno', '?'))


def _rebind_closures(newenv, oldenv):
    """The frame dictionary was replaced by a copy: closures defined in this frame close over the new one."""
    if newenv is oldenv:
        return
    for k, v in newenv.items():
        if v is oldenv and k.startswith('__closure@'):
            newenv[k] = newenv


class _YieldSignal(BaseException):
    """A lazily interpreted generator reached a yield: control goes back to whoever asked for the next item."""
    def __init__(self, value, state, node):
        BaseException.__init__(self)
        self.value, self.state, self.node = value, state, node


class GenObj(Iter):
    """A generator object of the analysed code, suspended: its local variables and the yield it stopped at.  Items are produced on
    demand by Interp.gen_next, so that the effects of the generator and of its consumer happen in the order Python gives them."""
    def __init__(self, node, info, scope, env, fname):
        self.node, self.info, self.scope, self.env, self.fname = node, info, scope, env, fname
        self.pc = None            # None: not started; a Yield/YieldFrom node: suspended there; 'done'
        self.pos = 0
        self.retval = None        # the value of its return statement, once it is done (x = yield from g)

    @property
    def items(self):
        raise AnalysisError('the generator %s is consumed by code that takes all items at once and does not know lazy generators' % self.fname)

    def __repr__(self):
        return 'GenObj(%s at %s)' % (self.fname, 'start' if self.pc is None else (self.pc if self.pc == 'done' else 'line %s' % getattr(self.pc, 'lineno', '?')))

    def __deepcopy__(self, memo):
        g = GenObj(self.node, self.info, self.scope, None, self.fname)
        memo[id(self)] = g
        g.env = copy.deepcopy(self.env, memo)
        g.pc = self.pc
        g.retval = copy.deepcopy(self.retval, memo)
        return g

    def take(self):
        raise AnalysisError('the generator %s is consumed by code that does not know lazy generators' % self.fname)


class Stream(Iter):
    """A token stream: an iterator with push-back (tokens.push(tok) makes tok the next item)."""
    def __repr__(self):
        return 'Stream(%r@%d)' % (self.items, self.pos)

    def push(self, item):
        self.items.insert(self.pos, item)


class ScriptedIter(Iter):
    """An iterator value of the scenario (a token stream that the hooks script): items are asked from hooks.take one at a time."""
    def __init__(self, value):
        Iter.__init__(self, [])
        self.value = value

    def __repr__(self):
        return 'ScriptedIter(%r)' % (self.value,)

    def __deepcopy__(self, memo):
        g = ScriptedIter(copy.deepcopy(self.value, memo))
        memo[id(self)] = g
        return g

    def take(self):
        raise AnalysisError('a scripted iterator is consumed by code that does not know it')


class CountIter(Iter):
    """itertools.count(start): an unbounded iterator (loops over it are cut by the unrolling limit)."""
    def __init__(self, start=0, step=1):
        Iter.__init__(self, [])
        self.start, self.step = start, step

    def __repr__(self):
        return 'count(%r)@%d' % (self.start, self.pos)

    def take(self):
        self.pos += 1
        return self.start + (self.pos - 1) * self.step


for _k in (M.ClassInfo, M.FunctionInfo, M.ModuleInfo, M.External):
    _k.__deepcopy__ = lambda self, memo: self


def is_concrete(v):
    if v is TOP or isinstance(v, (Sym, M.Unknown)):
        return False
    if isinstance(v, (list, tuple, set, frozenset)):
        return all(is_concrete(x) for x in v)
    if isinstance(v, dict):
        return all(is_concrete(x) for x in v.values())
    return True


class State:
    __slots__ = ('env', 'trace', 'assumed', 'flags')

    def __init__(self, env=None, trace=(), assumed=None):
        self.env = env if env is not None else {}
        self.trace = tuple(trace)
        self.assumed = assumed if assumed is not None else {}
        self.flags = ()

    def fork(self):
        s = State(copy.deepcopy(self.env), self.trace, dict(self.assumed))
        s.flags = self.flags
        return s

    def emit(self, ev):
        try:
            hash(ev)
        except TypeError:
            ev = tuple(x if not isinstance(x, (list, dict, set, tuple)) else repr(x) for x in ev)
            try:
                hash(ev)
            except TypeError:
                ev = tuple(repr(x) for x in ev)
        self.trace = self.trace + (ev,)

    def get(self, name, default=TOP):
        return self.env.get(name, default)

    def key(self):
        return (self.trace, _freeze(self.env), self.flags)


def _freeze(v, _depth=0, _seen=None):
    if _seen is None:
        _seen = set()
    if isinstance(v, (dict, list, Obj)):
        if id(v) in _seen:
            return ('ref', getattr(v, 'label', type(v).__name__))       # shared / cyclic structure: once is enough
        _seen.add(id(v))
    if isinstance(v, dict):
        return tuple(sorted(((str(k), _freeze(x, _depth, _seen)) for k, x in v.items()), key=repr))
    if isinstance(v, (list, tuple)):
        return (type(v).__name__,) + tuple(_freeze(x, _depth, _seen) for x in v)
    if isinstance(v, (set, frozenset)):
        return ('set',) + tuple(sorted(map(repr, v)))
    if isinstance(v, CountIter):
        return ('count', v.start, v.step, v.pos)
    if isinstance(v, GenObj):
        if id(v) in _seen:
            return ('ref', 'gen')
        _seen.add(id(v))
        return ('gen', v.fname, v.pc if isinstance(v.pc, str) or v.pc is None else (v.pc.lineno, v.pc.col_offset), _freeze(v.env, _depth + 1, _seen))
    if isinstance(v, LazyGen):
        return ('lazy', v.kind, getattr(v.node, 'lineno', 0), v.state, _freeze(v.source, _depth + 1, _seen))
    if isinstance(v, Iter):
        return ('iter', v.pos, _freeze(v.items, _depth, _seen))
    if isinstance(v, TextObj):
        if id(v) in _seen:
            return ('ref', str(v))
        _seen.add(id(v))
        return ('text', str(v), tuple(sorted(((str(k), _freeze(x, _depth + 1, _seen)) for k, x in v.attrs.items()), key=repr)))
    if isinstance(v, Obj):
        if _depth > 6:
            return ('obj', v.label)
        return ('obj', v.label, tuple(sorted(((str(k), _freeze(x, _depth + 1, _seen)) for k, x in v.attrs.items()), key=repr)))
    try:
        hash(v)
        return v if not isinstance(v, float) else repr(v)
    except TypeError:
        return repr(v)


import os as _os
_TRACE_EXC = bool(_os.environ.get('VERIF_TRACE_EXC'))
class _FuseExit(Exception):
    """The body of a for loop over a generator left the loop (break / return / raise) while the generator was suspended."""
    def __init__(self, kind, state, value=None):
        Exception.__init__(self, kind)
        self.kind, self.state, self.value = kind, state, value


class _FuseFail(Exception):
    """The loop body could not be interleaved with the generator (several outcomes, or the heap was copied under way)."""


def _shallow_sig(v, _depth=0):
    """Signature of a container value: its items by identity (objects) or value; None for values that are not containers."""
    if isinstance(v, (list, set, dict)) and not isinstance(v, (ListObj,)):
        items = v.items() if isinstance(v, dict) else v
        try:
            return (type(v).__name__,) + tuple((id(x) if isinstance(x, (Obj, TextObj, list, dict)) else repr(x)) for x in items)
        except Exception:
            return None
    if isinstance(v, tuple) and _depth < 2:
        sub = [_shallow_sig(x, _depth + 1) for x in v]
        if any(x is not None for x in sub):
            return ('tuple',) + tuple(sub)
    return None


_INTERNAL_KEY = re.compile(r'__(rx|cm)@\d+_\d+$|__(ia\d+|ik_\w+|caller|gen|yields|ysnap|fuse|iter|list|exitstacks|yf|x\d+|k_\w+|base|idx|val|recv|fn|obj|f)@\d+$|__handling$|__exc$')
_FRAME_LOCAL = re.compile(r'__(rx|cm)@\d+_\d+$|__(iter|list|exitstacks|yf)@\d+$|__handling$')


class _ModuleScope:
    """Stands for 'code at the top level of a module' where the interpreter needs a scope for name resolution."""
    def __init__(self, mod):
        self.module, self.cls, self.node, self.name, self.qualname = mod, None, None, '<module>', '<module>'
        self.fullname = mod.name + '.<module>'
        self.path = mod.path


class PropertyVal:
    """property(fget, fset) made by a call in a class body: reading obj.name runs fget on the object."""
    def __init__(self, fget=None, fset=None, fdel=None):
        self.fget, self.fset, self.fdel = fget, fset, fdel

    def __repr__(self):
        return 'property(%r)' % (self.fget,)

    def __deepcopy__(self, memo):
        return self


class Partial:
    """functools.partial(f, *args, **kwargs) as a value"""
    def __init__(self, func, args, kwargs):
        self.func, self.args, self.kwargs = func, tuple(args), dict(kwargs)

    def __repr__(self):
        return 'Partial(%r)' % (self.func,)


class OpCall:
    """operator.methodcaller / attrgetter / itemgetter as values"""
    def __init__(self, kind, names, args=(), kwargs=None):
        self.kind, self.names, self.args, self.kwargs = kind, tuple(names), tuple(args), dict(kwargs or {})

    def __repr__(self):
        return '%s%r' % (self.kind, self.names)


class _NoteList(list):
    """The imprecision notes of one interpreter; heap-mode interpreters also report into the module-wide log that the
    verdict functions of sa/report.py consult (a FAIL drawn from an imprecise interpretation is no verdict)."""
    def __init__(self, shared=None):
        list.__init__(self)
        self.shared = shared

    def append(self, x):
        list.append(self, x)
        if self.shared is not None:
            self.shared.append(x)


IMPRECISION = []          # notes of heap-mode interpretations since the last verdict (drained by sa/report.py)


class Hooks:
    """Override points for a checker."""

    def lookup(self, interp, name, state):
        """Value of a free name / dotted attribute text not in the env."""
        return None

    def call(self, interp, node, fname, args, kwargs, state):
        """Return a value to use as the call's result, or None for default."""
        return None

    def iter_item(self, interp, loop, k, state):
        """Item for iteration k of `loop`; STOP to exhaust; None = fork both."""
        return None

    def take(self, interp, value, state):
        """Next item of an iterator value that the scenario scripts (reached through zip(), next(), a lazy wrapper): the item, STOP,
        or NotImplemented when `value` is none of the scenario's iterators."""
        return NotImplemented

    def decide(self, interp, test, state):
        """Force the outcome of a test (True/False) or None."""
        return None

    def keep(self, ev):
        """Whether an event is recorded in traces."""
        return True


STOP = Sym('<<stop-iteration>>')
NONE = Sym('<<python-None>>')      # a hook answers a call with the value None


class Interp:
    def __init__(self, model=None, scope=None, hooks=None, max_iter=1,
                 max_states=40000, exc_edges=True, record_conds=False, inline=0, precise_exc=False, heap=False, generators=False):
        self.max_unroll = 70
        self.run_init = False           # heap mode: interpret __init__ of instantiated repository classes
        self.lazy_generators = bool(heap and precise_exc)          # generator functions give suspended generator objects (GenObj), resumed on demand
        self._lazy_active = []
        self.generators = generators or heap    # interpret calls of generator helpers eagerly (their value is an iterator over the yields)
        self.heap = heap                # instantiating a repository class gives a mutable Obj instead of an Inst
        self.precise_exc = precise_exc  # exceptions only where one can occur: failed lookups on known containers, unknown calls
        self._maythrow = 0
        self.inline_depth = inline      # how deep helper calls are interpreted (0 = never)
        self._inline_stack = []
        self.unknown_branches = _NoteList(IMPRECISION if heap else None)   # tests whose outcome the interpretation could not determine (both arms followed)
        self.imprecise = _NoteList(IMPRECISION)          # heap mode: effects that could not be interpreted (they are lost)
        self.model, self.scope = model, scope
        self.h = hooks or Hooks()
        self.max_iter = max_iter
        self.max_states = max_states
        self.exc_edges = exc_edges
        self.record_conds = record_conds
        self.nstates = 0

    # ------------------------------------------------------------------
    def emit(self, st, ev):
        if self.h.keep(ev):
            st.emit(ev)

    def _count(self, n=1):
        self.nstates += n
        if self.nstates > self.max_states:
            raise AnalysisError('path explosion (> %d states) in %s'
                                % (self.max_states, getattr(self.scope, 'fullname', '?')))

    # -- running ---------------------------------------------------------
    def run_function(self, fn, env=None):
        """Interpret the whole body of FunctionInfo `fn`.  Returns a list of
        (kind, state, value) with kind in return/raise/fall."""
        self.scope = fn
        st = State(dict(env or {}))
        outs = self.block(fn.node.body, [st])
        res = []
        for kind in ('fall', 'return', 'raise'):
            for s, v in outs.get(kind, []):
                res.append(('return' if kind == 'fall' else kind, s, v))
        for kind in ('break', 'continue'):
            if outs.get(kind):
                raise AnalysisError('break/continue outside loop')
        return res

    def block(self, stmts, states):
        """Run statements over a list of states.  Returns dict kind ->
        list of (state, value)."""
        outs = {}
        cur = list(states)
        for st_node in stmts:
            nxt = []
            for s in cur:
                r = self.stmt(st_node, s)
                for kind, lst in r.items():
                    for x in lst:
                        if any(k.startswith('__rx@') for k in x[0].env):
                            for k in [k for k in x[0].env if k.startswith('__rx@')]:
                                del x[0].env[k]
                    if self.precise_exc:
                        pend = [x for x in lst if '__exc' in x[0].env]
                        if pend:
                            if _TRACE_EXC:
                                print('TRACE-EXC', [x[0].env['__exc'] for x in pend], 'at line', getattr(st_node, 'lineno', '?'), 'in', getattr(self.scope, 'fullname', '?'),
                                      ':', _text(st_node)[:100])
                            lst = [x for x in lst if '__exc' not in x[0].env]
                            outs.setdefault('raise', []).extend((x[0], x[0].env.pop('__exc')) for x in pend)
                    if kind == 'fall':
                        nxt.extend(x[0] for x in lst)
                    else:
                        outs.setdefault(kind, []).extend(lst)
            cur = self._merge(nxt)
            if not cur:
                break
        outs.setdefault('fall', []).extend((s, None) for s in cur)
        return outs

    def _merge(self, states):
        seen = {}
        for s in states:
            k = s.key()
            if k in seen:
                o = seen[k]
                o.assumed = {a: b for a, b in o.assumed.items() if s.assumed.get(a, None) == b and a in s.assumed}
            else:
                seen[k] = s
        self._count(len(seen))
        return list(seen.values())

    # -- statements --------------------------------------------------------
    def stmt(self, n, s):
        meth = getattr(self, 'st_' + type(n).__name__, None)
        if meth is None:
            raise AnalysisError('statement %s not modelled (line %s)' % (type(n).__name__, getattr(n, 'lineno', '?')))
        return meth(n, s)

    def st_Pass(self, n, s):
        return {'fall': [(s, None)]}

    st_Global = st_Nonlocal = st_Pass

    def st_Import(self, n, s):
        if self.heap and self.model is not None:
            for a in n.names:
                mod = self.model.modules.get(a.name if a.asname else a.name.split('.')[0])
                s.env[a.asname or a.name.split('.')[0]] = mod if mod is not None else M.External(a.name if a.asname else a.name.split('.')[0])
        return {'fall': [(s, None)]}

    def st_ImportFrom(self, n, s):
        # an import inside a function binds local names (from plasTeX.Imagers import Imager as VectorImager)
        if self.heap and self.model is not None:
            scope_mod = self.scope if isinstance(self.scope, M.ModuleInfo) else getattr(self.scope, 'module', None)
            if scope_mod is not None:
                base = self.model._abs_from(scope_mod, n)
                mod = self.model.modules.get(base)
                for a in n.names:
                    if a.name == '*':
                        continue
                    if mod is None:
                        s.env[a.asname or a.name] = M.External('%s.%s' % (base, a.name))
                        continue
                    r = self.model.resolve_in_module(mod, a.name)
                    if r is None:
                        r = self.model.modules.get(base + '.' + a.name)
                    s.env[a.asname or a.name] = self._from_model(r)
        return {'fall': [(s, None)]}

    def st_FunctionDef(self, n, s):
        fv = Sym('func:%s' % n.name, truthy=True, attrs={'node': n} if isinstance(n, ast.FunctionDef) else None)
        s.env[n.name] = fv
        if self.heap and isinstance(n, ast.FunctionDef):
            s.env['__closure@%s_%d' % (n.name, n.lineno)] = s.env      # the frame the function closes over (it travels with the state)
        for dec in getattr(n, 'decorator_list', []):
            # @stack.callback on a nested function: registered with an ExitStack of this state (run when its `with` ends)
            if isinstance(dec, ast.Attribute) and dec.attr == 'callback':
                owner = self.ev(dec.value, s)
                if isinstance(owner, Obj) and isinstance(owner.attrs.get('__callbacks'), list):
                    owner.attrs['__callbacks'].append(fv)
                    continue
            if self.heap and isinstance(n, ast.FunctionDef):
                self.imprecise.append('decorator %s on the nested function %s is not modelled (line %s)' % (_text(dec)[:40], n.name, n.lineno))
        return {'fall': [(s, None)]}

    st_ClassDef = st_AsyncFunctionDef = st_FunctionDef

    def st_Expr(self, n, s):
        outs = []
        if isinstance(n.value, ast.Call):
            inl = self.inline(n.value, s)
            if inl is not None:
                return {'fall': [(s2, None) for s2, v in inl]}
        if isinstance(n.value, ast.YieldFrom) and self._lazy_active and not any(k.startswith('__yields@') for k in s.env):
            return self._lazy_yield_from(n, s)
        if isinstance(n.value, ast.YieldFrom) and isinstance(n.value.value, ast.Call) and self.generators \
           and any(k.startswith('__yields@') for k in s.env):
            # `yield from helper(...)`: the helper's yields are the yields of this generator, in place
            was_gen = self._is_generator_call(n.value.value, s)
            self._share_yields = True
            try:
                inl = self.inline(n.value.value, s)
            finally:
                self._share_yields = False
            if inl is not None:
                for s2, v in inl:
                    if v is not None and '__exc' not in s2.env and not was_gen:
                        self._yield_items(v, s2, n.value)        # not a generator: the helper returned something to iterate over
                return {'fall': [(s2, None) for s2, v in inl]}
        for s2, v in self.expr(n.value, s):
            if isinstance(n.value, ast.Call):
                self._invalidate_call(n.value, s2)
            outs.append((s2, None))
        return {'fall': outs}

    def st_ClassDef(self, n, s):
        # a class defined inside a function: indexed like a module-level class, bound to its name
        if self.model is None or self.scope is None:
            s.env[n.name] = TOP
            return {'fall': [(s, None)]}
        cache = self.model.__dict__.setdefault('_local_classes', {})
        key = (self.scope.module.name, n.lineno, n.name)
        if key not in cache:
            cache[key] = self.model._index_class(self.scope.module, n, '%s.<locals>.%s' % (getattr(self.scope, 'qualname', '?'), n.name), None)
        s.env[n.name] = cache[key]
        return {'fall': [(s, None)]}

    def st_Assert(self, n, s):
        return {'fall': [(s, None)]}

    def st_Delete(self, n, s):
        for t in n.targets:
            txt = _text(t)
            if isinstance(t, ast.Subscript):
                base = self.ev(t.value, s)
                if isinstance(base, (list, dict)):
                    try:
                        if isinstance(t.slice, ast.Slice):
                            lo, hi, stp = [self.ev(x, s) if x is not None else None for x in (t.slice.lower, t.slice.upper, t.slice.step)]
                            if all(x is None or isinstance(x, int) for x in (lo, hi, stp)):
                                del base[lo:hi:stp]
                        else:
                            idx = self.ev(t.slice, s)
                            if is_concrete(idx):
                                del base[idx]
                    except (KeyError, IndexError) as e:
                        if self.precise_exc:
                            s.env['__exc'] = type(e).__name__
            if isinstance(t, ast.Attribute) and self.heap:
                base = self.ev(t.value, s)
                if isinstance(base, Obj):
                    if t.attr in base.attrs:
                        del base.attrs[t.attr]
                    elif self.precise_exc and base.attrs.get('__closed'):
                        s.env['__exc'] = 'AttributeError'
                elif isinstance(base, M.ClassInfo):
                    key = '__cls:%s.%s' % (base.fullname, t.attr)
                    if key in s.env:
                        del s.env[key]            # an attribute that the interpreted code had put on the class
                    elif t.attr in base.assigns or t.attr in base.methods:
                        self.imprecise.append('del %s removes an attribute the class was defined with (line %s)' % (txt, n.lineno))
                    elif self.precise_exc:
                        s.env['__exc'] = 'AttributeError'
            s.env.pop(txt, None)
            self.emit(s, ('del', txt))
            self._invalidate(txt, s)
        return {'fall': [(s, None)]}

    def st_Assign(self, n, s):
        outs = []
        if isinstance(n.value, ast.YieldFrom) and self._lazy_active and not any(k.startswith('__yields@') for k in s.env):
            return self._lazy_yield_from(n, s)
        call = self._as_call(n.value, s)
        if call is None and isinstance(n.value, ast.YieldFrom) and isinstance(n.value.value, ast.Call) and self.generators \
           and any(k.startswith('__yields@') for k in s.env):
            call = n.value.value          # x = yield from helper(...): the helper's yields are ours, x is its return value
            self._share_yields = True
        if call is not None:
            try:
                inl = self.inline(call, s)
            finally:
                self._share_yields = False
            if inl is not None:
                for s2, v in inl:
                    for t in n.targets:
                        self.assign(t, v, s2, n)
                    outs.append((s2, None))
                return {'fall': outs}
        for s2, v in self.expr(n.value, s):
            for t in n.targets:
                self.assign(t, v, s2, n)
            outs.append((s2, None))
        return {'fall': outs}

    def st_AnnAssign(self, n, s):
        if n.value is None:
            return {'fall': [(s, None)]}
        outs = []
        for s2, v in self.expr(n.value, s):
            self.assign(n.target, v, s2, n)
            outs.append((s2, None))
        return {'fall': outs}

    def st_AugAssign(self, n, s):
        outs = []
        load = copy.copy(n.target)
        load.ctx = ast.Load()
        for s2, cur in self.expr(load, s):
            for s3, v in self.expr(n.value, s2):
                txt = _text(n.target)
                idx = None
                if isinstance(n.target, ast.Subscript) and not isinstance(n.target.slice, ast.Slice):
                    idx = self.ev(n.target.slice, s3)
                    if not is_concrete(idx):
                        idx = None
                self.emit(s3, ('aug', txt, type(n.op).__name__, v if is_concrete(v) else _text(n.value), idx))
                if isinstance(cur, EnumVal) and cur.int_like:
                    cur = cur.attrs['value']
                if isinstance(v, EnumVal) and v.int_like:
                    v = v.attrs['value']             # a member of an IntEnum is its number in arithmetic
                if is_concrete(cur) and is_concrete(v) and not isinstance(cur, (list, dict, set)):
                    try:
                        res = M._BINOPS[type(n.op)](cur, v)
                    except Exception:
                        res = TOP
                        if self.heap:
                            self.imprecise.append('%s %s= ... could not be computed on %s and %s (line %s)'
                                                  % (txt, type(n.op).__name__, type(cur).__name__, type(v).__name__, n.lineno))
                elif isinstance(cur, list) and isinstance(v, (list, tuple, Iter)) and not isinstance(v, CountIter) and isinstance(n.op, ast.Add):
                    if isinstance(v, (LazyGen, GenObj)):
                        v = self.lazy_drain(v, s3)
                    if v is None:
                        res = TOP
                        self.imprecise.append('%s += ... with items that are not determined (line %s)' % (txt, n.lineno))
                    else:
                        cur.extend(self._seq_of(v))
                        res = cur
                else:
                    res = TOP
                self.assign(n.target, res, s3, n, quiet=True)
                outs.append((s3, None))
        return {'fall': outs}

    def assign(self, t, v, s, node, quiet=False):
        if isinstance(t, ast.Subscript) and isinstance(t.slice, ast.Slice) and isinstance(v, (LazyGen, GenObj)):
            v = self.lazy_drain(v, s)                 # x[a:b] = <lazy iterator>: the items are taken now
            v = TOP if v is None else v
        if isinstance(t, (ast.Tuple, ast.List)):
            if isinstance(v, (LazyGen, GenObj)):
                v = self.lazy_drain(v, s)
                v = TOP if v is None else v
            if isinstance(v, Iter) and not isinstance(v, CountIter):
                v = self._seq_of(v)                   # unpacking consumes the iterator
            elif isinstance(v, (dict, set, frozenset, range)) or (isinstance(v, str) and not isinstance(v, (M._StringLetters, TextObj)) and is_concrete(v)):
                v = self._seq_of(v)
            stars = [i for i, e in enumerate(t.elts) if isinstance(e, ast.Starred)]
            if isinstance(v, (tuple, list)) and len(stars) == 1 and len(v) >= len(t.elts) - 1:
                i = stars[0]
                tail = len(t.elts) - i - 1
                vals = list(v)
                parts = vals[:i] + [vals[i:len(vals) - tail]] + (vals[len(vals) - tail:] if tail else [])
                for e, x in zip(t.elts, parts):
                    self.assign(e.value if isinstance(e, ast.Starred) else e, x, s, node, quiet)
                return
            if isinstance(v, (tuple, list)) and len(v) == len(t.elts) and not any(isinstance(e, ast.Starred) for e in t.elts):
                for e, x in zip(t.elts, v):
                    self.assign(e, x, s, node, quiet)
            elif self.precise_exc and (v is None or (isinstance(v, (int, float, bool)) and not isinstance(v, Sym))):
                s.env['__exc'] = 'TypeError'          # unpacking something that is not iterable
            elif self.precise_exc and isinstance(v, (tuple, list)) and is_concrete(v) and not any(isinstance(e, ast.Starred) for e in t.elts):
                s.env['__exc'] = 'ValueError'         # wrong number of values to unpack
            else:
                for e in t.elts:
                    self.assign(e.value if isinstance(e, ast.Starred) else e, TOP, s, node, quiet)
            return
        txt = _text(t)
        if isinstance(t, ast.Name):
            s.env[txt] = v
            self._invalidate(txt, s)
        elif isinstance(t, ast.Attribute):
            base = None
            if txt not in s.env or self.heap:
                for _s, b in self.expr(t.value, s, fork=False):
                    base = b
            if isinstance(base, M.ClassInfo) and self.heap:
                s.env['__cls:%s.%s' % (base.fullname, t.attr)] = v        # Class.attr = v, whatever name the class goes by here
            setter = None
            if self.heap and isinstance(base, Obj) and isinstance(base.cls, M.ClassInfo) and self.model is not None \
               and self.inline_depth > 0 and len(self._inline_stack) < self.inline_depth:
                for k in self.model.mro(base.cls):
                    if isinstance(k, M.ClassInfo) and t.attr in k.properties:
                        setter = k.properties[t.attr].get('set')
                        break
                    if isinstance(k, M.ClassInfo) and (t.attr in k.methods or t.attr in k.assigns):
                        break
            if setter is None and self.heap and isinstance(base, Obj) and isinstance(base.cls, M.ClassInfo) and self.model is not None:
                for k in self.model.mro(base.cls):
                    if isinstance(k, M.ClassInfo) and t.attr in k.properties:
                        if 'set' not in k.properties[t.attr] and self.precise_exc:
                            s.env['__exc'] = 'AttributeError'       # a property without setter
                            return
                        break
                    if isinstance(k, M.ClassInfo) and (t.attr in k.methods or t.attr in k.assigns):
                        break
            if setter is not None:
                # obj.prop = value where prop has a setter: interpret the setter on the object
                key = '__val@%d' % len(self._inline_stack)
                s.env[key] = v
                bkey = '__base@%d' % len(self._inline_stack)
                s.env[bkey] = base          # the target object was evaluated once (objects.pop(0).title = ...): not again inside the call
                call = ast.Call(func=ast.Attribute(value=ast.Name(id=bkey, ctx=ast.Load()), attr=t.attr, ctx=ast.Load()),
                                args=[ast.Name(id=key, ctx=ast.Load())], keywords=[])
                for x in ast.walk(call):
                    if not hasattr(x, 'lineno'):
                        x.lineno, x.col_offset, x.end_lineno, x.end_col_offset = getattr(node, 'lineno', 0), 0, getattr(node, 'lineno', 0), 0
                self._force_callee = setter
                try:
                    res = self.inline(call, s.fork())
                except AnalysisError:
                    res = None
                if res is not None and len(res) == 1:
                    self._force_callee = setter
                    res = self.inline(call, s)
                    st = res[0][0]
                    _old_env = s.env
                    s.env, s.trace, s.assumed, s.flags = st.env, st.trace, st.assumed, st.flags
                    _rebind_closures(s.env, _old_env)
                else:
                    self.imprecise.append('setter of %s could not be interpreted (line %s)' % (txt, getattr(node, 'lineno', '?')))
                self._force_callee = None
                s.env.pop(key, None)
                s.env.pop(bkey, None)
                return
            if isinstance(base, (Obj, TextObj, ListObj)):
                base.attrs[t.attr] = v
            else:
                s.env[txt] = v
            self._invalidate(txt, s)
            if not quiet:
                self.emit(s, ('setattr', txt, v if is_concrete(v) or isinstance(v, (Inst, Sym)) else _text(getattr(node, 'value', t))))
        elif isinstance(t, ast.Subscript):
            base = None
            for _s, b in self.expr(t.value, s, fork=False):
                base = b
            idx = None
            if not isinstance(t.slice, ast.Slice):
                for _s, i in self.expr(t.slice, s, fork=False):
                    idx = i
            stored = False
            if self.heap and isinstance(base, Obj) and isinstance(base.cls, M.ClassInfo) and '__items' not in base.attrs and self.model is not None \
               and not isinstance(t.slice, ast.Slice) and self.model.find_method(base.cls, '__setitem__') is not None \
               and self.inline_depth > 0 and len(self._inline_stack) < self.inline_depth:
                # obj[key] = value on a heap object whose class defines __setitem__: interpret that method
                key = '__val@%d' % len(self._inline_stack)
                s.env[key] = v
                bkey, ikey = '__base@%d' % len(self._inline_stack), '__idx@%d' % len(self._inline_stack)
                s.env[bkey], s.env[ikey] = base, idx           # evaluated once above
                call = ast.Call(func=ast.Attribute(value=ast.Name(id=bkey, ctx=ast.Load()), attr='__setitem__', ctx=ast.Load()),
                                args=[ast.Name(id=ikey, ctx=ast.Load()), ast.Name(id=key, ctx=ast.Load())], keywords=[])
                for x in ast.walk(call):
                    if not hasattr(x, 'lineno'):
                        x.lineno, x.col_offset, x.end_lineno, x.end_col_offset = getattr(node, 'lineno', 0), 0, getattr(node, 'lineno', 0), 0
                res = self._inline_single(call, s)
                for k_ in (key, bkey, ikey):
                    s.env.pop(k_, None)
                if res is None:
                    self.imprecise.append('%s[...] = ... on a heap object could not be interpreted (line %s)' % (_text(t.value), getattr(node, 'lineno', '?')))
                return
            if isinstance(t.slice, ast.Slice) and isinstance(base, list):
                lo, hi, stp = [self.ev(x, s) if x is not None else None for x in (t.slice.lower, t.slice.upper, t.slice.step)]
                seq = self._seq_of(v) if not isinstance(v, (list, tuple)) else v
                if seq is not None and all(x is None or isinstance(x, int) for x in (lo, hi, stp)):
                    try:
                        base[lo:hi:stp] = list(seq)
                        stored = True
                        if isinstance(v, Iter):
                            v.pos = len(v.items)
                    except Exception:
                        pass
                if not stored:
                    self.imprecise.append('%s[:] = ... with a value that is not determined: the store is lost (line %s)' % (_text(t.value), getattr(node, 'lineno', '?')))
                    IMPRECISION.append('%s[:] = ... lost (line %s)' % (_text(t.value), getattr(node, 'lineno', '?')))
            elif isinstance(base, Obj) and isinstance(base.attrs.get('__items'), dict) and idx is not None and is_concrete(idx):
                try:
                    base.attrs['__items'][idx] = v
                    stored = True
                except TypeError:
                    pass
            elif isinstance(base, Obj) and isinstance(base.attrs.get('__dict'), dict) and idx is not None and is_concrete(idx):
                try:
                    base.attrs['__dict'][idx] = v
                    stored = True
                except TypeError:
                    pass
            elif isinstance(base, (list, dict)) and idx is not None and is_concrete(idx):
                try:
                    base[idx] = v
                    stored = True
                except Exception:
                    pass
            if not quiet:
                self.emit(s, ('setitem', _text(t.value), idx if is_concrete(idx) and idx is not None else _text(t.slice),
                              v if is_concrete(v) or isinstance(v, (Inst, Sym)) else _text(getattr(node, 'value', t))))
            root = _text(t.value).split('.')[0].split('[')[0]
            for k in [k for k in s.assumed if _mentions(k, _text(t.value), root)]:
                del s.assumed[k]
            if not stored and is_concrete(idx) and idx is not None:
                s.env[txt] = v
            elif not stored and self.heap and (isinstance(base, (list, dict)) or (isinstance(base, Obj) and ('__dict' in base.attrs or '__items' in base.attrs))):
                self.imprecise.append('%s[...] = ... with a key that is not determined: the store is lost (line %s)' % (_text(t.value), getattr(node, 'lineno', '?')))
        else:
            raise AnalysisError('assignment target %s not modelled' % type(t).__name__)

    def _invalidate(self, txt, s):
        root = txt.split('.')[0].split('[')[0]
        for k in [k for k in s.assumed if _mentions(k, txt, root)]:
            del s.assumed[k]
        # attribute facts of overwritten names
        for k in [k for k in s.env if k.startswith(txt + '.') or k.startswith(txt + '[')]:
            del s.env[k]

    def _invalidate_call(self, call, s):
        """A call used as a statement may mutate its receiver."""
        f = call.func
        if isinstance(f, ast.Attribute):
            txt = _text(f.value)
            root = txt.split('.')[0].split('[')[0]
            for k in [k for k in s.assumed if _mentions(k, txt, root)]:
                del s.assumed[k]

    def st_Return(self, n, s):
        if n.value is None:
            self.emit(s, ('return', None, n.lineno))
            return {'return': [(s, None)]}
        outs = []
        results = None
        call = self._as_call(n.value, s)
        if call is not None:
            results = self.inline(call, s)
        for s2, v in (results if results is not None else self.expr(n.value, s)):
            self.emit(s2, ('return', v if (is_concrete(v) or _known(v)) else _text(n.value), n.lineno))
            outs.append((s2, v))
        return {'return': outs}

    def st_Raise(self, n, s):
        self.emit(s, ('raise', _text(n.exc) if n.exc else None, n.lineno))
        name = None
        if n.exc is not None:
            e = n.exc.func if isinstance(n.exc, ast.Call) else n.exc
            name = _text(e).split('.')[-1]
        elif '__handling' in s.env:
            name = s.env['__handling']
        return {'raise': [(s, name)]}

    def st_Break(self, n, s):
        return {'break': [(s, None)]}

    def st_Continue(self, n, s):
        self.emit(s, ('continue', n.lineno))
        return {'continue': [(s, None)]}

    def st_If(self, n, s):
        outs = {}
        for s2, r in self.branch(n.test, s):
            if self.precise_exc and '__exc' in s2.env:
                outs.setdefault('fall', []).append((s2, None))       # the test itself raised: neither arm runs
                continue
            blk = n.body if r else n.orelse
            res = self.block(blk, [s2]) if blk else {'fall': [(s2, None)]}
            for k, lst in res.items():
                outs.setdefault(k, []).extend(lst)
        return outs

    def st_Match(self, n, s):
        """match subject: case pattern [if guard]: ...  - the first case whose pattern matches (and whose guard holds) runs."""
        outs = {}
        for s2, subj in self.expr(n.subject, s):
            if self.precise_exc and '__exc' in s2.env:
                outs.setdefault('fall', []).append((s2, None))
                continue
            states = [s2]
            for case in n.cases:
                nxt = []
                for st in states:
                    binds = {}
                    r = self._match_pattern(case.pattern, subj, st, binds)
                    if r is None:
                        self.unknown_branches.append('case %s (line %s)' % (_text(case.pattern)[:60], case.pattern.lineno))
                        f = st.fork()
                        nxt.append(f)              # may not match: the later cases
                        r = True                   # may match: this case
                    if not r:
                        nxt.append(st)
                        continue
                    for k, v in binds.items():
                        st.env[k] = v
                    taken = [st]
                    if case.guard is not None:
                        taken = []
                        for s3, ok in self.branch(case.guard, st):
                            (taken if ok else nxt).append(s3)
                    if taken:
                        for kind, lst in self.block(case.body, taken).items():
                            outs.setdefault(kind, []).extend(lst)
                states = nxt
                if not states:
                    break
            outs.setdefault('fall', []).extend((st, None) for st in states)
        return outs

    def _match_pattern(self, p, v, s, binds):
        """True / False / None (not determined): does value v match pattern p; captures go to `binds`."""
        if isinstance(p, ast.MatchAs):
            if p.pattern is not None:
                r = self._match_pattern(p.pattern, v, s, binds)
                if r is not True:
                    return r
            if p.name is not None:
                binds[p.name] = v
            return True
        if isinstance(p, ast.MatchOr):
            unknown = False
            for alt in p.patterns:
                b2 = {}
                r = self._match_pattern(alt, v, s, b2)
                if r is True:
                    binds.update(b2)
                    return True
                if r is None:
                    unknown = True
            return None if unknown else False
        if v is TOP or isinstance(v, M.Unknown):
            return None
        if isinstance(p, ast.MatchValue):
            want = self.ev(p.value, s)
            return self.compare(ast.Eq(), v, want, None, None)
        if isinstance(p, ast.MatchSingleton):
            return self.compare(ast.Is(), v, p.value, None, None)
        if isinstance(p, ast.MatchSequence):
            if isinstance(v, (str, bytes, dict, set)) or not isinstance(v, (list, tuple)):
                return False if _plain(v) or isinstance(v, (Obj, TextObj)) else None
            stars = [i for i, e in enumerate(p.patterns) if isinstance(e, ast.MatchStar)]
            if not stars:
                if len(v) != len(p.patterns):
                    return False
                pairs = list(zip(p.patterns, v))
            else:
                i = stars[0]
                tail = len(p.patterns) - i - 1
                if len(v) < len(p.patterns) - 1:
                    return False
                if p.patterns[i].name is not None:
                    binds[p.patterns[i].name] = list(v[i:len(v) - tail])
                pairs = list(zip(p.patterns[:i], v[:i])) + (list(zip(p.patterns[i + 1:], v[len(v) - tail:])) if tail else [])
            res = True
            for sub, x in pairs:
                r = self._match_pattern(sub, x, s, binds)
                if r is False:
                    return False
                if r is None:
                    res = None
            return res
        if isinstance(p, ast.MatchMapping):
            d = v.attrs.get('__dict') if isinstance(v, Obj) else v
            if not isinstance(d, dict):
                return False if _plain(v) else None
            res = True
            for k, sub in zip(p.keys, p.patterns):
                key = self.ev(k, s)
                if not _plain(key):
                    return None
                if key not in d:
                    return False
                r = self._match_pattern(sub, d[key], s, binds)
                if r is False:
                    return False
                if r is None:
                    res = None
            if p.rest is not None:
                used = {self.ev(k, s) for k in p.keys}
                binds[p.rest] = {k: x for k, x in d.items() if k not in used}
            return res
        if isinstance(p, ast.MatchClass):
            k = self.ev(p.cls, s)
            if p.patterns:
                return None                       # positional sub-patterns (__match_args__) are not modelled
            ok = None
            if isinstance(k, M.External) and k.name.split('.')[-1] in _ABCS and k.name.split('.')[0] in ('collections', 'typing', k.name.split('.')[-1]):
                k = _ABCS[k.name.split('.')[-1]]          # case Sequence(): the abstract base classes of the library
                if isinstance(v, Obj) and isinstance(v.cls, M.ClassInfo) and not any(isinstance(b, M.External) for b in self.model.mro(v.cls)):
                    ok = False if k not in (_abc.Hashable, _abc.Sized, _abc.Iterable, _abc.Callable) else None
            if ok is not None:
                pass
            elif isinstance(k, type) and (_plain(v) and not isinstance(v, (TextObj, TokStr))):
                ok = isinstance(v, k)
            elif isinstance(k, M.ClassInfo) and isinstance(v, Obj) and isinstance(v.cls, M.ClassInfo) and self.model is not None:
                ok = k in self.model.mro(v.cls)
            elif isinstance(k, M.ClassInfo) and _plain(v) and not isinstance(v, (TextObj, TokStr)):
                ok = False
            elif isinstance(k, type) and isinstance(v, Obj) and k in (str, int, float, bool, list, tuple, dict, set, bytes):
                ok = False
            if ok is None:
                # as `isinstance(subject, Class)` would be answered (the scenario's knowledge of its own objects included)
                nm_ = self._with_temps({'__subj': v}, s)
                call_ = ast.Call(func=ast.Name(id='isinstance', ctx=ast.Load()), args=[ast.Name(id=nm_['__subj'], ctx=ast.Load()), p.cls], keywords=[])
                for x in ast.walk(call_):
                    if not hasattr(x, 'lineno'):
                        x.lineno, x.col_offset, x.end_lineno, x.end_col_offset = getattr(p, 'lineno', 0), 0, getattr(p, 'lineno', 0), 0
                try:
                    r_ = self.ev(call_, s)
                finally:
                    s.env.pop(nm_['__subj'], None)
                if isinstance(r_, bool):
                    ok = r_
            if ok is not True:
                return ok
            res = True
            for name, sub in zip(p.kwd_attrs, p.kwd_patterns):
                r0 = self._getattr_value(v, name, s, getattr(p, 'lineno', 0))
                if r0 is None or r0[0] is TOP:
                    return None
                r = self._match_pattern(sub, r0[0], s, binds)
                if r is False:
                    return False
                if r is None:
                    res = None
            return res
        return None

    def st_With(self, n, s):
        states = [s]
        early = []
        for idx, item in enumerate(n.items):
            nxt = []
            for st in states:
                for s2, v in self.expr(item.context_expr, st):
                    if isinstance(item.context_expr, ast.Call) and _text(item.context_expr.func) in ('contextlib.ExitStack', 'ExitStack') and self.heap:
                        v = Obj('ExitStack@%d' % n.lineno, {'__callbacks': []})
                        s2.env.setdefault('__exitstacks@%d' % n.lineno, v)
                    if self.precise_exc and '__exc' in s2.env:
                        early.append(s2)           # the context expression raised: managers entered so far are left again
                        continue
                    entered = self._cm_enter(v, s2, n, idx)
                    if entered is None and not isinstance(v, GenObj) and isinstance(item.context_expr, ast.Call) and self.model is not None:
                        info_ = self.resolve_callee(item.context_expr, s2)
                        if info_ is not None and self._is_contextmanager(info_.node):
                            # (without lazy generator objects the body of the manager has already run to its end)
                            self.imprecise.append('the context manager %s is not interpreted in this mode: what it does around the block is lost (line %s)'
                                                  % (info_.fullname, n.lineno))
                    if entered is not None:
                        v = entered[0]
                        if self.precise_exc and '__exc' in s2.env:
                            early.append(s2)
                            continue
                    if item.optional_vars is not None:
                        self.assign(item.optional_vars, v if (not is_concrete(v) or isinstance(v, Obj) or entered is not None) else TOP, s2, n, quiet=True)
                    nxt.append(s2)
            states = nxt
        supp = []
        for st in states:
            for item in n.items:
                if item.optional_vars is None and isinstance(item.context_expr, ast.Call) and _text(item.context_expr.func) in ('contextlib.suppress', 'suppress'):
                    supp = [_text(a).split('.')[-1] for a in item.context_expr.args]
        outs = self.block(n.body, states) if states else {}
        for st in early:
            outs.setdefault('raise', []).append((st, st.env.pop('__exc')))
        return self._with_tail(n, outs, supp)

    def _decorated(self, node, scope, what):
        """Is the class / function definition `node` decorated by <what> (dataclass, contextmanager), under whatever name it was imported?"""
        for d in getattr(node, 'decorator_list', []):
            f = d.func if isinstance(d, ast.Call) else d
            if _text(f).split('.')[-1] == what:
                return d
            if self.model is not None and scope is not None and isinstance(f, (ast.Name, ast.Attribute)):
                try:
                    r = self.model.resolve_expr(scope, f)
                except Exception:
                    r = None
                if isinstance(r, M.External) and r.name.split('.')[-1] == what:
                    return d
        return None

    def _is_contextmanager(self, fnode, scope=None):
        if scope is None and self.model is not None:
            scope = self.__dict__.setdefault('_fnode_scope', {}).get(id(fnode))
            if scope is None:
                for f_ in self._all_function_infos():
                    self._fnode_scope[id(f_.node)] = f_
                scope = self._fnode_scope.get(id(fnode))
        return self._decorated(fnode, scope, 'contextmanager') is not None

    def _all_function_infos(self):
        out = []
        for mod in self.model.modules.values():
            out.extend(mod.functions.values())
            stack = list(mod.classes.values())
            while stack:
                k = stack.pop()
                out.extend(k.methods.values())
                for p_ in k.properties.values():
                    out.extend(p_.values())
                stack.extend(k.nested.values())
        return out

    def _cm_enter(self, v, s, n, idx):
        """Entering a context manager of the analysed code: a @contextmanager generator runs up to its yield, an object of a
        class with __enter__/__exit__ has __enter__ called.  (value bound by `as`,) or None when v is no such manager."""
        key = '__cm@%d_%d' % (n.lineno, idx)
        if isinstance(v, GenObj) and self._is_contextmanager(v.node):
            item = self.gen_next(v, s)
            if '__exc' in s.env:
                return (TOP,)
            if item is None or item is STOP:
                self.imprecise.append('the context manager %s did not yield deterministically (line %s)' % (v.fname, n.lineno))
                return (TOP,)
            s.env[key] = v
            return (None if item is _NONE_ITEM else item,)
        if isinstance(v, Obj) and isinstance(v.cls, M.ClassInfo) and self.model is not None and self.inline_depth > 0 \
           and self.model.find_method(v.cls, '__enter__') is not None and self.model.find_method(v.cls, '__exit__') is not None:
            r = self._call_obj_method(v, '__enter__', [], s, n.lineno)
            if r is None:
                self.imprecise.append('%s.__enter__ could not be interpreted (line %s)' % (v.label, n.lineno))
                return (TOP,)
            if '__exc' not in s.env:
                s.env[key] = v
            return (r[0],)
        return None

    def _cm_exit(self, cm, kind, st, exc, n):
        """Leaving the with block: the outcome kind afterwards ('same', 'fall' when the exception was swallowed, 'raise')."""
        if isinstance(cm, GenObj):
            if kind != 'raise':
                item = self.gen_next(cm, st)
                if '__exc' in st.env:
                    return 'raise'
                if item is not STOP:
                    self.imprecise.append('the context manager %s did not stop after its yield (line %s)' % (cm.fname, n.lineno))
                return 'same'
            name = exc if isinstance(exc, str) else getattr(exc, 'label', None) or 'Exception'
            st.env.pop('__exc', None)
            item = self.gen_next(cm, st, throw=exc if exc is not None else name)
            if '__exc' in st.env:
                return 'raise'
            if item is STOP:
                return 'fall'            # the generator handled the exception and finished: the with statement swallows it
            self.imprecise.append('the context manager %s did not stop after an exception was thrown into it (line %s)' % (cm.fname, n.lineno))
            return 'same'
        args = [None, None, None] if kind != 'raise' else [Sym('exctype:%s' % (exc if isinstance(exc, str) else getattr(exc, 'label', '?')), truthy=True),
                                                          exc if not isinstance(exc, str) else Sym('exc:%s' % exc, truthy=True), Sym('traceback', truthy=True)]
        pending = st.env.pop('__exc', None)
        r = self._call_obj_method(cm, '__exit__', args, st, n.lineno)
        if r is None:
            self.imprecise.append('%s.__exit__ could not be interpreted (line %s)' % (cm.label, n.lineno))
            return 'same'
        if '__exc' in st.env:
            return 'raise'
        if kind == 'raise':
            t = self.truth_in(r[0], st)
            if t is None:
                self.imprecise.append('whether %s.__exit__ swallows the exception is not determined (line %s)' % (cm.label, n.lineno))
            elif t:
                return 'fall'
            if pending is not None:
                st.env['__exc'] = pending
        return 'same'

    def _call_obj_method(self, obj, mname, args, s, lineno):
        """obj.<mname>(args) for a heap object; (result,) when the call has exactly one outcome, else None."""
        names = self._with_temps({'__obj': obj}, s)
        names.update(self._with_temps({'__x%d' % i: a for i, a in enumerate(args)}, s))
        call = ast.Call(func=ast.Attribute(value=ast.Name(id=names['__obj'], ctx=ast.Load()), attr=mname, ctx=ast.Load()),
                        args=[ast.Name(id=names['__x%d' % i], ctx=ast.Load()) for i in range(len(args))], keywords=[])
        for x in ast.walk(call):
            x.lineno, x.col_offset, x.end_lineno, x.end_col_offset = lineno, 0, lineno, 0
        try:
            return self._inline_single(call, s)
        finally:
            for nm_ in names.values():
                s.env.pop(nm_, None)

    def _with_tail(self, n, outs, supp=None):
        if supp is None:
            supp = []
            for item in n.items:
                if item.optional_vars is None and isinstance(item.context_expr, ast.Call) and _text(item.context_expr.func) in ('contextlib.suppress', 'suppress'):
                    supp = [_text(a).split('.')[-1] for a in item.context_expr.args]
        if supp and self.precise_exc and outs.get('raise'):
            kept = []
            handler = ast.ExceptHandler(type=ast.Tuple(elts=[ast.Name(id=x, ctx=ast.Load()) for x in supp], ctx=ast.Load()), name=None, body=[])
            for st, exc in outs['raise']:
                pending = st.env.get('__exc', exc if isinstance(exc, str) else None)
                name = pending if isinstance(pending, str) else getattr(pending, 'label', None)
                m_ = self._handler_matches(handler, name)
                if m_ is True:
                    st.env.pop('__exc', None)
                    outs.setdefault('fall', []).append((st, None))       # the exception is swallowed by suppress()
                else:
                    if m_ is None:
                        self.imprecise.append('whether suppress() swallows the exception is not determined (line %s)' % n.lineno)
                    kept.append((st, exc))
            outs['raise'] = kept
        if any(k.startswith('__cm@%d_' % n.lineno) for lst in outs.values() for st, _v in lst for k in st.env):
            res = {}
            for kind, lst in outs.items():
                for st, v in lst:
                    k2, exc = kind, v
                    for idx in reversed(range(len(n.items))):
                        cm = st.env.pop('__cm@%d_%d' % (n.lineno, idx), None)
                        if cm is None:
                            continue
                        r = self._cm_exit(cm, k2, st, exc, n)
                        if r == 'raise':
                            k2, exc = 'raise', st.env.pop('__exc')
                        elif r == 'fall':
                            k2, exc = 'fall', None
                    res.setdefault(k2, []).append((st, exc if k2 == 'raise' else (v if k2 == kind else None)))
            outs = res
        key = '__exitstacks@%d' % n.lineno
        if any(key in st.env for lst in outs.values() for st, _v in lst):
            # leaving the with block by any route runs the registered callbacks, last in first out
            for kind, lst in outs.items():
                for st, _v in lst:
                    stack = st.env.pop(key, None)
                    if not isinstance(stack, Obj):
                        continue
                    pending = st.env.pop('__exc', None)
                    for cb in reversed(stack.attrs.get('__callbacks', [])):
                        r = self.call_value(cb, [], st, n.lineno)
                        if r is None:
                            self.imprecise.append('an ExitStack callback could not be interpreted (line %s)' % n.lineno)
                    if pending is not None:
                        st.env['__exc'] = pending
        return outs

    def st_While(self, n, s):
        return self._loop(n, s, None)

    def st_For(self, n, s):
        fused = self._try_fuse(n, s)
        if fused is not None:
            return fused
        outs = []
        res = {}
        for s2, it in self.expr(n.iter, s):
            it = self.materialize(it, s2)
            if self._lazy_active and self._inline_stack and self._inline_stack[-1] is self._lazy_active[-1].node and not isinstance(it, Iter) \
               and any(isinstance(x, (ast.Yield, ast.YieldFrom)) for b in n.body for x in ast.walk(b)):
                seq = self._seq_of(it)
                if seq is not None:
                    # the loop may be suspended at a yield: its position lives in the frame (over a list of the heap: in that list)
                    it = Iter(it, live=True) if type(it) is list and self.heap else Iter(seq)
            if isinstance(it, Iter):
                if getattr(it, 'lazy_mismatch', None):
                    self.imprecise.append(it.lazy_mismatch)
                s2.env['__iter@%d' % n.lineno] = it
            elif isinstance(it, list) and is_concrete(it) and len(it) <= 64 and (self.heap or any(v is it for v in s2.env.values() if isinstance(v, list))):
                # a list that the body can reach: iterate over the live object (removals during the loop skip items, as in Python)
                s2.env['__list@%d' % n.lineno] = it
            r = self._loop(n, s2, it)
            for k, lst in r.items():
                res.setdefault(k, []).extend(lst)
        return res

    def _loop(self, n, s, iterable):
        outs = {}
        exits = []       # states leaving the loop normally (no break) -> orelse
        broken = []      # states leaving through break
        cur = [s]
        is_for = isinstance(n, ast.For)
        concrete_items = None
        if is_for and isinstance(iterable, (list, tuple)) and len(iterable) <= 64:
            concrete_items = list(iterable)           # a known sequence (its elements may be symbolic)
        elif is_for and isinstance(iterable, range) and len(iterable) <= 4096:
            concrete_items = list(iterable)
        elif is_for and isinstance(iterable, str) and not isinstance(iterable, M._StringLetters) and len(iterable) <= 256:
            concrete_items = list(iterable)
        elif is_for and isinstance(iterable, dict) and len(iterable) <= 64 and all(_plain(k) for k in iterable):
            concrete_items = list(iterable.keys())
        k = 0
        while cur:
            bound = (max(len(concrete_items), 64 if isinstance(iterable, list) else 0) if concrete_items is not None else self.max_iter)
            enter = []
            for st in cur:
                if is_for:
                    live = st.env.get('__list@%d' % n.lineno) if isinstance(iterable, list) else None
                    if isinstance(live, list):
                        if k < len(live):
                            self.assign(n.target, live[k], st, n, quiet=True)
                            enter.append(st)
                        else:
                            st.env.pop('__list@%d' % n.lineno, None)
                            exits.append(st)
                        continue
                    if concrete_items is not None:
                        if k < len(concrete_items):
                            self.assign(n.target, concrete_items[k], st, n, quiet=True)
                            enter.append(st)
                        else:
                            exits.append(st)
                        continue
                    real_none = False
                    if isinstance(iterable, (LazyGen, GenObj)):
                        item = self._take(st.env['__iter@%d' % n.lineno], st)
                        if item is None:
                            self.imprecise.append('the items of a lazy iterator are not determined (line %s)' % n.lineno)
                            item = STOP
                        elif item is _NONE_ITEM:
                            item, real_none = None, True
                        if self.precise_exc and '__exc' in st.env:
                            outs.setdefault('raise', []).append((st, st.env.pop('__exc')))      # the generator raised
                            continue
                    elif isinstance(iterable, Iter):
                        item = st.env['__iter@%d' % n.lineno].take()
                        real_none = item is None               # an iterator over known items: None is an item like any other
                    else:
                        item = self.h.iter_item(self, n, k, st)
                        if item is None and k == 0:
                            self.unknown_branches.append('iteration over %s, which is not determined (line %s)' % (_text(n.iter)[:60], n.lineno))
                    if item is STOP:
                        exits.append(st)
                    elif item is not None or real_none:
                        self.assign(n.target, item, st, n, quiet=True)
                        enter.append(st)
                    else:
                        if k >= bound:
                            st.flags = st.flags + (('loop-bound', n.lineno),)
                            exits.append(st)
                        else:
                            e = st.fork()
                            exits.append(e)
                            self.assign(n.target, Sym('item@%d' % n.lineno), st, n, quiet=True)
                            enter.append(st)
                else:
                    if k >= bound and concrete_items is None:
                        # bounded unrolling: leave the loop
                        forced = False
                        for s2, r in self.branch(n.test, st):
                            if not r:
                                exits.append(s2)
                            else:
                                forced = True
                                s2.flags = s2.flags + (('loop-bound', n.lineno),)
                                exits.append(s2)
                        continue
                    for s2, r in self.branch(n.test, st):
                        (enter if r else exits).append(s2)
            if not enter:
                break
            res = self.block(n.body, enter)
            dv = getattr(iterable, 'derived_from', None) if isinstance(iterable, Iter) else None
            if dv is not None:
                src_, pos_, len_ = dv
                left = iterable.pos < len(iterable.items)
                if (src_.pos, len(src_.items)) != (pos_, len_) or (left and (res.get('break') or res.get('return') or res.get('raise'))):
                    self.imprecise.append('the loop over %s reads or leaves the underlying iterator while the eager interpretation has already '
                                          'taken its items (line %s)' % (_text(n.iter)[:50], n.lineno))
                    iterable.derived_from = None
            cur = []
            for kind, lst in res.items():
                if kind in ('fall', 'continue'):
                    cur.extend(x[0] for x in lst)
                elif kind == 'break':
                    broken.extend(x[0] for x in lst)
                else:
                    outs.setdefault(kind, []).extend(lst)
            cur = self._merge(cur)
            k += 1
            if k > self.max_unroll:
                raise AnalysisError('loop unrolling runaway at line %s' % n.lineno)
        exits = self._merge(exits)
        if n.orelse and exits:
            res = self.block(n.orelse, exits)
            for kind, lst in res.items():
                outs.setdefault(kind, []).extend(lst)
        else:
            outs.setdefault('fall', []).extend((x, None) for x in exits)
        outs.setdefault('fall', []).extend((x, None) for x in self._merge(broken))
        return outs

    def _handler_matches(self, h, name):
        """True / False / None (unknown) - does handler `h` catch exception class `name`."""
        import builtins
        if h.type is None:
            return True
        if name is None:
            return None
        types = [h.type] if not isinstance(h.type, ast.Tuple) else list(h.type.elts)
        unknown = False
        for t in types:
            tn = _text(t).split('.')[-1]
            if tn == name:
                return True
            if tn == 'BaseException' or (tn == 'Exception' and name not in ('KeyboardInterrupt', 'SystemExit', 'GeneratorExit')):
                return True
            a, b = getattr(builtins, name, None), getattr(builtins, tn, None)
            if isinstance(a, type) and isinstance(b, type):
                if issubclass(a, b):
                    return True
            else:
                unknown = True
        return None if unknown else False

    def _try_precise(self, n, s):
        body_out = {}
        pending = []          # (state, exception name or None)
        cur = [s]
        for st_node in n.body:
            nxt = []
            for st in cur:
                pre = st.fork() if n.handlers else None
                c0 = self._maythrow
                r = self.block([st_node], [st])
                if pre is not None and self._maythrow > c0 and any(lst for kind, lst in r.items() if kind != 'raise'):
                    pending.append((pre, None))       # an unknown call / lookup may raise anything (not when the statement definitely raised)
                for kind, lst in r.items():
                    if kind == 'fall':
                        nxt.extend(x[0] for x in lst)
                    elif kind == 'raise':
                        pending.extend(lst)
                    else:
                        body_out.setdefault(kind, []).extend(lst)
            cur = self._merge(nxt)
            if not cur:
                break
        return self._try_tail(n, cur, pending, body_out)

    def _try_tail(self, n, normal, pending, body_out, handlers=True, orelse=True):
        """What follows the body of a try statement: handlers for the pending exceptions, else clause, finally clause."""
        if not handlers:
            for st, name in pending:
                body_out.setdefault('raise', []).append((st, name))
            pending = []
        for st, name in pending:
            caught = False
            for h in n.handlers:
                mt = self._handler_matches(h, name)
                if mt is False:
                    continue
                st2 = st.fork() if mt is None else st
                self.emit(st2, ('except', _text(h.type) if h.type else 'bare', h.lineno))
                if h.name:
                    st2.env[h.name] = Sym('exc')
                st2.env['__handling'] = name
                res = self.block(h.body, [st2])
                for kind, lst in res.items():
                    for x in lst:
                        x[0].env.pop('__handling', None)
                    body_out.setdefault(kind, []).extend(lst)
                if mt is True:
                    caught = True
                    break
            if not caught:
                body_out.setdefault('raise', []).append((st, name))
        if n.orelse and normal and orelse:
            res = self.block(n.orelse, normal)
            for kind, lst in res.items():
                body_out.setdefault(kind, []).extend(lst)
        else:
            body_out.setdefault('fall', []).extend((x, None) for x in normal)
        if n.finalbody:
            final = {}
            for kind, lst in body_out.items():
                for st, v in lst:
                    res = self.block(n.finalbody, [st])
                    for k2, l2 in res.items():
                        if k2 == 'fall':
                            final.setdefault(kind, []).extend((x[0], v) for x in l2)
                        else:
                            final.setdefault(k2, []).extend(l2)
            body_out = final
        return body_out

    def st_Try(self, n, s):
        if self.precise_exc:
            return self._try_precise(n, s)
        outs = {}
        # body with snapshots for exception edges
        snaps = []
        cur = [s]
        body_out = {}
        if self.exc_edges and n.handlers:
            snaps.append(s.fork())
        for st_node in n.body:
            nxt = []
            for st in cur:
                r = self.stmt(st_node, st)
                for kind, lst in r.items():
                    if kind == 'fall':
                        nxt.extend(x[0] for x in lst)
                    else:
                        body_out.setdefault(kind, []).extend(lst)
            cur = self._merge(nxt)
            if self.exc_edges and n.handlers:
                snaps.extend(x.fork() for x in cur)
            if not cur:
                break
        body_out.setdefault('fall', []).extend((x, None) for x in cur)
        # explicit raises inside the body reach the handlers
        raised = body_out.pop('raise', [])
        if n.handlers:
            hstates = [x[0] for x in raised] + snaps
            hstates = self._merge(hstates)
            for h in n.handlers:
                hs = []
                for st in hstates:
                    st2 = st.fork()
                    self.emit(st2, ('except', _text(h.type) if h.type else 'bare', h.lineno))
                    if h.name:
                        st2.env[h.name] = Sym('exc')
                    hs.append(st2)
                res = self.block(h.body, hs)
                for kind, lst in res.items():
                    body_out.setdefault(kind, []).extend(lst)
        else:
            body_out.setdefault('raise', []).extend(raised)
        # else clause
        if n.orelse:
            falls = body_out.pop('fall', [])
            # only states that completed the body normally reach orelse; the
            # handler fall-throughs are also in 'fall' - separate them by flag
            res = self.block(n.orelse, [x[0] for x in falls])
            for kind, lst in res.items():
                body_out.setdefault(kind, []).extend(lst)
        if n.finalbody:
            final = {}
            for kind, lst in body_out.items():
                for st, v in lst:
                    res = self.block(n.finalbody, [st])
                    for k2, l2 in res.items():
                        if k2 == 'fall':
                            final.setdefault(kind, []).extend((x[0], v) for x in l2)
                        else:
                            final.setdefault(k2, []).extend(l2)
            body_out = final
        return body_out

    def _inline_single(self, call, s, prop=False):
        """Interpret a helper call inside an expression when it has exactly one outcome.  A dry run on a copy decides that;
        the real run then works on `s` itself, so object identities seen by the caller stay valid.  Returns (value,) or None."""
        saved_prop = getattr(self, '_property_ok', False)
        self._property_ok = prop
        try:
            try:
                res = self.inline(call, s.fork())
            except AnalysisError:
                res = None
            if res is None or len(res) != 1:
                return None
            self._property_ok = prop
            res = self.inline(call, s)
        finally:
            self._property_ok = saved_prop
        if res is None or len(res) != 1:
            raise AnalysisError('helper call %s is not deterministic' % _text(call))
        st, v = res[0]
        _old_env = s.env
        s.env, s.trace, s.assumed, s.flags = st.env, st.trace, st.assumed, st.flags
        _rebind_closures(s.env, _old_env)
        return (v,)

    def materialize(self, v, s):
        """The items of a heap object whose class defines __iter__ (interpreted on that object); the members of an enum class; v otherwise."""
        if isinstance(v, M.ClassInfo) and self.model is not None:
            mem = self._enum_members(v, s)
            if mem is not None:
                return list(mem)
        if self.heap and isinstance(v, Obj) and isinstance(v.cls, M.ClassInfo) and self.model is not None \
           and self.inline_depth > 0 and len(self._inline_stack) < self.inline_depth and self.model.find_method(v.cls, '__iter__') is not None:
            key = '__recv@%d' % len(self._inline_stack)
            s.env[key] = v
            call = ast.Call(func=ast.Attribute(value=ast.Name(id=key, ctx=ast.Load()), attr='__iter__', ctx=ast.Load()), args=[], keywords=[])
            for x in ast.walk(call):
                x.lineno, x.col_offset, x.end_lineno, x.end_col_offset = 0, 0, 0, 0
            res = self._inline_single(call, s)
            s.env.pop(key, None)
            if res is not None:
                r = res[0]
                if isinstance(r, (GenObj, LazyGen)):
                    items = self._drain(r, s)          # __iter__ written as a generator
                    return items if items is not None else TOP
                if isinstance(r, Iter):
                    return list(r.items[r.pos:])
                if isinstance(r, (list, tuple)):
                    return list(r)
            return TOP
        if isinstance(v, Obj) and isinstance(v.attrs.get('__dict'), dict):
            return list(v.attrs['__dict'].keys())
        return v

    def _call_args(self, call, s):
        """Evaluated (positional, keyword) arguments of a call; *seq and **map are spread when known.
        Returns None when a starred argument is not known."""
        args = []
        for a in call.args:
            if isinstance(a, ast.Starred):
                v = self.ev(a.value, s)
                if isinstance(v, (list, tuple)):
                    args.extend(v)
                else:
                    return None
            else:
                args.append(self.ev(a, s))
        kwargs = {}
        for k in call.keywords:
            v = self.ev(k.value, s)
            if k.arg is None:
                if isinstance(v, dict) and all(isinstance(x, str) for x in v):
                    kwargs.update(v)
                else:
                    return None
            else:
                kwargs[k.arg] = v
        return args, kwargs

    def _as_call(self, node, s):
        """`node` if it is a Call; a synthetic obj.__getitem__(idx) call for a subscript of a heap object whose class
        defines __getitem__; else None."""
        if isinstance(node, ast.Call):
            return node
        if self.heap and isinstance(node, ast.Subscript) and isinstance(node.ctx, ast.Load) and not isinstance(node.slice, ast.Slice) \
           and self.model is not None and _text(node) not in s.env:
            base = None
            for _s, b in self.expr(node.value, s, fork=False):
                base = b
            if isinstance(base, Obj) and isinstance(base.cls, M.ClassInfo) and '__items' not in base.attrs \
               and self.model.find_method(base.cls, '__getitem__') is not None:
                call = ast.Call(func=ast.Attribute(value=node.value, attr='__getitem__', ctx=ast.Load()), args=[node.slice], keywords=[])
                ast.copy_location(call, node)
                ast.copy_location(call.func, node)
                return call
        return None

    # -- helper inlining ---------------------------------------------------------
    def _callee(self, call, s):
        """Resolve a call to a function definition that can be interpreted in place:
        (node, bound-self?, scope) or None."""
        f = call.func
        fn = self.scope
        node = getattr(fn, 'node', None)
        if isinstance(f, ast.Name) and f.id.startswith('__forced_') and f.id in self.__dict__.get('_forced_table', {}):
            info = self._forced_table[f.id]
            return info.node, False, info
        forced = getattr(self, '_force_callee', None)
        if forced is not None:
            self._force_callee = None
            recv = None
            for _s, b in self.expr(f.value, s, fork=False):
                recv = b
            self._receiver = recv
            return forced.node, True, forced
        if isinstance(f, ast.Attribute) and isinstance(f.value, ast.Call) and isinstance(f.value.func, ast.Name) and f.value.func.id == 'super' \
           and not f.value.args and self.model is not None and isinstance(getattr(fn, 'cls', None), M.ClassInfo):
            # super().method(...): the next definition after the current function's class in the receiver's MRO
            me = s.env.get('self')
            start = me.cls if isinstance(me, Obj) and isinstance(me.cls, M.ClassInfo) else fn.cls
            mro = [k for k in self.model.mro(start)]
            if fn.cls in mro:
                for k in mro[mro.index(fn.cls) + 1:]:
                    if isinstance(k, M.ClassInfo) and f.attr in k.methods:
                        if isinstance(me, Obj):
                            self._receiver = me
                        return k.methods[f.attr].node, True, k.methods[f.attr]
            return None
        if isinstance(f, ast.Name):
            cur = s.env.get(f.id)
            if isinstance(cur, Sym) and cur.label.startswith('func:') and isinstance(cur.attrs.get('node'), ast.FunctionDef):
                return cur.attrs['node'], False, None        # a nested function, possibly handed over as an argument
            if isinstance(cur, Sym) and cur.label.startswith('func:') and isinstance(node, (ast.FunctionDef, ast.AsyncFunctionDef)):
                for x in ast.walk(node):
                    if isinstance(x, ast.FunctionDef) and x.name == f.id and x is not node:
                        return x, False, None
            if isinstance(cur, Sym) and cur.label.startswith('method:') and self.model is not None:
                cls = getattr(self.h, 'cls', None) or getattr(fn, 'cls', None)
                me_ = s.env.get('self')
                if isinstance(me_, Obj) and isinstance(me_.cls, M.ClassInfo):
                    cls = me_.cls                 # the object the code runs on (a helper object of another class than the scenario's)
                mm = self.model.find_method(cls, cur.label[7:]) if cls is not None else None
                if mm is None and self.heap:
                    self.imprecise.append('the method %s held in %s could not be resolved: its effect is lost (line %s)' % (cur.label[7:], f.id, getattr(call, 'lineno', '?')))
                if mm is not None:
                    return mm.node, not any(d == 'staticmethod' for d in mm.decorators), mm
            if f.id in s.env or self.model is None or fn is None:
                return None
            r = self.model.resolve_name(fn, f.id)
            if isinstance(r, M.FunctionInfo) and r.cls is None:
                return r.node, False, r
            return None
        if isinstance(f, ast.Attribute) and isinstance(f.value, ast.Name) and f.value.id in ('self', 'cls') and self.model is not None:
            cls = getattr(self.h, 'cls', None) or getattr(fn, 'cls', None)
            me = s.env.get(f.value.id)
            if isinstance(me, M.ClassInfo):
                cls = me                        # cls.helper(...) inside a class method: the class it was called on
            if isinstance(me, Obj) and isinstance(me.cls, M.ClassInfo):
                cls = me.cls                    # the object the method runs on (a receiver of an inlined call)
                if f.attr in me.attrs:
                    return None
            if cls is None or _text(f) in s.env:
                return None
            m = self.model.find_method(cls, f.attr)
            if m is None:
                # the object is of another class than the code that runs on it (a mix-in interpreted on a plain node)
                for alt in (getattr(fn, 'cls', None), getattr(self.h, 'cls', None)):
                    if isinstance(alt, M.ClassInfo) and alt is not cls:
                        m = self.model.find_method(alt, f.attr)
                        if m is not None:
                            break
            if m is None or (m.cls is not None and f.attr in m.cls.properties and m.cls.properties[f.attr].get('get') is m
                             and not getattr(self, '_property_ok', False)):
                return None
            if any(d in ('staticmethod',) for d in m.decorators):
                return m.node, False, m
            return m.node, True, m
        if isinstance(f, ast.Attribute) and isinstance(f.value, (ast.Name, ast.Attribute)) and self.model is not None and fn is not None \
           and ((f.attr.startswith('_') and not f.attr.startswith('__')) or re.match(r'_[A-Za-z]', _text(f.value).split('.')[-1])) and _text(f) not in s.env:
            root = f.value
            while isinstance(root, ast.Attribute):
                root = root.value
            if isinstance(root, ast.Name) and root.id not in s.env and root.id not in self._locals():
                r = self.model.resolve_expr(fn, f)       # ClassName._helper(obj, ...): a private method called through its class
                if isinstance(r, M.FunctionInfo):
                    if 'classmethod' in r.decorators:
                        owner = self.model.resolve_expr(fn, f.value)
                        if isinstance(owner, M.ClassInfo):
                            self._receiver = owner       # ClassName._helper(...) of a class method: cls is that class
                            return r.node, True, r
                        return None
                    return r.node, False, r
        if isinstance(f, ast.Attribute) and self.model is not None and self.heap:
            # method of a heap object of a repository class:  self.parent.keys()
            recv = None
            for _s, b in self.expr(f.value, s, fork=False):
                recv = b
            if isinstance(recv, Obj):
                held = recv.attrs.get(f.attr)
                if isinstance(held, Sym) and held.label.startswith('boundmethod:') and isinstance(held.attrs.get('fn'), M.FunctionInfo):
                    self._receiver = held.attrs['recv']          # an attribute that holds a bound method of another object
                    return held.attrs['fn'].node, True, held.attrs['fn']
            if isinstance(recv, Obj) and isinstance(recv.cls, M.ClassInfo) and f.attr not in recv.attrs:
                m = self.model.find_method(recv.cls, f.attr)
                if m is not None and not any(d == 'staticmethod' or (d == 'property' and not getattr(self, '_property_ok', False))
                                             for d in m.decorators) and m.node.args.args:
                    self._receiver = recv          # (a classmethod gets the object that stands for the class)
                    return m.node, True, m
        return None

    def inline(self, call, s):
        """Interpret a call to a helper of the analysed code in place.
        Returns [(state, value)] or None when the call is not inlined."""
        call = self._norm_call(call, s)
        if self.inline_depth <= 0:
            return None
        if len(self._inline_stack) >= self.inline_depth:
            if self.heap and self._callee(call, s) is not None:
                self._receiver = None
                self.imprecise.append('inline depth %d exhausted at %s (line %s)' % (self.inline_depth, _text(call.func), getattr(call, 'lineno', '?')))
            return None
        fname = _text(call.func)
        res = self._callee(call, s)
        if res is None:
            return None
        node, bound, info = res
        receiver, self._receiver = getattr(self, '_receiver', None), None
        flt = getattr(self.h, 'should_inline', None)
        if flt is not None and not flt(fname, node, info):
            return None
        is_gen = any(isinstance(x, (ast.Yield, ast.YieldFrom)) for x in M.walk_no_nested(node))
        share_yields, self._share_yields = getattr(self, '_share_yields', False), False
        fuse_req, self._fuse_req = getattr(self, '_fuse_req', None), None
        if (node in self._inline_stack and receiver is None and not self.heap) or self._inline_stack.count(node) >= 4 \
           or (is_gen and not self.generators):
            if self.heap:
                self.imprecise.append('recursive helper %s not interpreted (line %s)' % (fname, getattr(call, 'lineno', '?')))
            return None
        ak = self._call_args(call, s)
        if ak is None:
            return None
        # a hook may want to answer this call itself
        args, kwargs = ak
        r = self.h.call(self, call, self.canon(fname, s), args, kwargs, s)
        if r is not None:
            self.emit(s, ('call', self.canon(fname, s), _evargs(args, call.args), call.lineno))
            return [(s, None if r is NONE else r)]
        params = [a.arg for a in node.args.posonlyargs + node.args.args]
        if bound and params:
            params = params[1:]
        if len(args) > len(params) and node.args.vararg is None:
            return None
        local = {}
        defaults = node.args.defaults
        dnames = params[len(params) - len(defaults):] if defaults else []
        for nm, d in zip(dnames, defaults):
            local[nm] = self.ev(d, s)
        for nm, d in zip([a.arg for a in node.args.kwonlyargs], node.args.kw_defaults):
            if d is not None:
                local[nm] = self.ev(d, s)
        for nm, v in zip(params, args):
            local[nm] = v
        if node.args.vararg is not None:
            local[node.args.vararg.arg] = tuple(args[len(params):])
        known = set(params) | {a.arg for a in node.args.kwonlyargs}
        extra = {}
        for k, v in kwargs.items():
            if k in known or node.args.kwarg is None:
                local[k] = v
            else:
                extra[k] = v
        if node.args.kwarg is not None:
            local[node.args.kwarg.arg] = extra
        for nm in params:
            local.setdefault(nm, TOP)
        # callee state: shares dotted (attribute) facts and the trace; own locals
        cs = State({k: v for k, v in s.env.items() if ('.' in k or '[' in k or k.startswith('__')) and not _FRAME_LOCAL.match(k)}, s.trace, dict(s.assumed))
        cs.flags = s.flags
        if not bound:
            # a nested function sees the enclosing locals
            if info is None:
                fsym = s.env.get(call.func.id) if isinstance(call.func, ast.Name) else None
                if isinstance(fsym, Sym) and isinstance(fsym.attrs.get('closure'), dict) and fsym.attrs.get('node') is node:
                    for k, v in fsym.attrs['closure'].items():
                        if k not in local:
                            cs.env[k] = v
                cenv = s.env.get('__closure@%s_%d' % (node.name, node.lineno)) if isinstance(node, ast.FunctionDef) else None
                if isinstance(cenv, dict) and cenv is not s.env:
                    shadow = set(local)
                    free = {x.id for x in ast.walk(node) if isinstance(x, ast.Name)}
                    for k, v in cenv.items():
                        if k not in shadow and not k.startswith('__') and k in free:
                            cs.env[k] = v          # the defining frame, wherever the function is called from
                for k, v in s.env.items():
                    cs.env.setdefault(k, v)
                # free variables of a closure that was handed over through other helpers
                for k in sorted((k for k in s.env if k.startswith('__caller@')), reverse=True):
                    for kk, vv in s.env[k].items():
                        cs.env.setdefault(kk, vv)
        cs.env.update(local)
        ykey = '__yields@%d' % len(self._inline_stack)
        share_yields_req = share_yields
        if is_gen and share_yields:
            is_gen = False              # its yields go to the enclosing generator's list (ev_Yield picks the innermost list)
        gen_before = None
        if is_gen:
            cs.env[ykey] = []           # a generator function: interpreted eagerly, its call yields an iterator over the values
            cs.env['__ysnap@%d' % len(self._inline_stack)] = []
            if fuse_req is None and self.heap:
                try:
                    gen_before = _freeze({k: v for k, v in s.env.items() if not _INTERNAL_KEY.match(k)})
                except RecursionError:
                    gen_before = None
            if fuse_req is not None:
                cs.env['__fuse@%d' % len(self._inline_stack)] = fuse_req      # ... unless it feeds a for loop: then each yield runs the loop body
        ckey = '__caller@%d' % len(self._inline_stack)
        cs.env[ckey] = s.env          # travels (and is forked) with the callee state: aliasing with caller locals is kept
        if receiver is not None:
            first = node.args.args[0].arg if node.args.args else 'self'
            cs.env[first] = receiver
            for k in [k for k in cs.env if k.startswith(first + '.') or k.startswith(first + '[')]:
                del cs.env[k]
        elif bound and 'self' in s.env and 'self' not in local:
            cs.env['self'] = s.env['self']
        if bound and receiver is None and 'cls' in s.env and 'cls' not in local and node.args.args and node.args.args[0].arg == 'cls':
            cs.env['cls'] = s.env['cls']
        elif bound and receiver is None and info is not None and 'classmethod' in getattr(info, 'decorators', ()) and node.args.args \
                and node.args.args[0].arg not in local:
            me_ = s.env.get('self')
            k_ = me_.cls if isinstance(me_, Obj) and isinstance(me_.cls, M.ClassInfo) else (getattr(self.h, 'cls', None) or info.cls)
            if isinstance(me_, Obj) and isinstance(me_.attrs.get('__classobj'), Obj):
                k_ = me_.attrs['__classobj']
            if k_ is not None:
                cs.env[node.args.args[0].arg] = k_           # self.method(...) of a class method: cls is the class of self
        if is_gen and self.lazy_generators and fuse_req is None and not share_yields_req:
            # a generator object: nothing of the body runs now
            genv = {k: v for k, v in cs.env.items() if not re.match(r'__(caller|yields|ysnap|fuse|gen)@\d+$', k) and not _FRAME_LOCAL.match(k)}
            g = GenObj(node, info, self.scope if info is None else info, genv, self.canon(fname, s))
            return [(s, g)]
        self.emit(cs, ('call', self.canon(fname, s), _evargs(args, call.args), call.lineno))
        self.emit(cs, ('enter', self.canon(fname, s), call.lineno))
        saved_scope, saved_cache = self.scope, getattr(self, '_locals_cache', None)
        self._inline_stack.append(node)
        if info is not None:
            self.scope = info
        try:
            outs = self.block(node.body, [cs])
        finally:
            self._inline_stack.pop()
            self.scope = saved_scope
            self._locals_cache = saved_cache
        results = []
        for kind in ('fall', 'return') + (('raise',) if self.precise_exc else ()):
            for st, v in outs.get(kind, []):
                _caller_env = st.env.get(ckey, s.env)
                ns = State(dict(_caller_env), st.trace, st.assumed)
                _rebind_closures(ns.env, _caller_env)
                st.env.pop(ckey, None)
                ns.flags = st.flags
                # write back attribute facts and bookkeeping keys
                for k in [k for k in ns.env if '.' in k or '[' in k or k.startswith('__')]:
                    if k not in st.env and not (receiver is not None and (k.startswith('self.') or k.startswith('self['))) and not _FRAME_LOCAL.match(k):
                        del ns.env[k]
                for k, val in st.env.items():
                    if receiver is not None and (k.startswith('self.') or k.startswith('self[')):
                        continue
                    if _FRAME_LOCAL.match(k):
                        continue               # loop iterators and the like belong to the frame that made them
                    if '.' in k or '[' in k or k.startswith('__'):
                        ns.env[k] = val
                if info is None:
                    nl = {nm for x in M.walk_no_nested(node) if isinstance(x, ast.Nonlocal) for nm in x.names} if isinstance(node, ast.FunctionDef) else set()
                    for k, val in st.env.items():
                        if k in s.env and k not in local and k != 'self' and (k in nl or not isinstance(node, ast.FunctionDef)):
                            ns.env[k] = val           # (only names declared nonlocal are the caller's to change)
                    cenv_ = ns.env.get('__closure@%s_%d' % (node.name, node.lineno)) if nl else None
                    if isinstance(cenv_, dict):
                        for nm in nl:
                            if nm in st.env:
                                cenv_[nm] = st.env[nm]          # nonlocal: the assignment is the defining frame's
                # drop the callee's `return` event of this frame
                if ns.trace and ns.trace[-1][0] == 'return':
                    ns.trace = ns.trace[:-1]
                self.emit(ns, ('leave', self.canon(fname, s), call.lineno))
                if kind == 'raise':
                    ns.env['__exc'] = v or 'Exception'      # propagates in the caller (block() turns it into a raise)
                    results.append((ns, TOP))
                    continue
                if is_gen:
                    ys = ns.env.pop(ykey, None)
                    snaps = ns.env.pop('__ysnap@%d' % len(self._inline_stack), None)
                    ns.env.pop('__fuse@%d' % len(self._inline_stack), None)
                    mismatch = None
                    if isinstance(ys, list) and isinstance(snaps, list) and len(snaps) == len(ys):
                        for v_, sig in zip(ys, snaps):
                            if sig is not None and _shallow_sig(v_) != sig:
                                mismatch = ('the generator %s changes a container after yielding it: a consumer that takes the items one by one sees '
                                            'another state than the eager interpretation (line %s)' % (fname, getattr(call, 'lineno', '?')))
                                break
                    gi = Iter(ys) if isinstance(ys, list) else TOP
                    if gen_before is not None and not mismatch:
                        try:
                            after = _freeze({k: v for k, v in ns.env.items() if not _INTERNAL_KEY.match(k)})
                        except RecursionError:
                            after = None
                        if after != gen_before:
                            mismatch = ('the generator %s changes objects of its caller while it runs: a consumer that takes the items one by one '
                                        'sees these changes later than the eager interpretation makes them (line %s)' % (fname, getattr(call, 'lineno', '?')))
                    if mismatch and isinstance(gi, Iter):
                        gi.lazy_mismatch = mismatch         # reported when the items are taken one at a time (for / next)
                    results.append((ns, gi))
                    continue
                results.append((ns, v if kind == 'return' else None))
        for st, v in outs.get('raise', []):
            self._pending_raises = getattr(self, '_pending_raises', []) + [st]
        return results or None

    def canon(self, fname, s=None):
        """Canonical name of a callee: a local that is a pure alias (assigned exactly once,
        from a name/attribute expression) is replaced by what it aliases."""
        node = getattr(self.scope, 'node', None)
        if not isinstance(node, (ast.FunctionDef, ast.AsyncFunctionDef)):
            return fname
        cache = getattr(self, '_alias_cache', None)
        if cache is None or cache[0] is node:
            pass
        if cache is None or cache[0] is not node:
            al = {}
            count = {}
            for x in ast.walk(node):
                if isinstance(x, ast.Assign):
                    for t in x.targets:
                        for nm in ([t.id] if isinstance(t, ast.Name) else []):
                            count[nm] = count.get(nm, 0) + 1
                            if isinstance(x.value, (ast.Name, ast.Attribute)) and len(x.targets) == 1:
                                al[nm] = _text(x.value)
                elif isinstance(x, (ast.AugAssign, ast.For, ast.With, ast.NamedExpr)):
                    for y in ast.walk(x.target if not isinstance(x, ast.With) else ast.Module(body=[], type_ignores=[])):
                        if isinstance(y, ast.Name):
                            count[y.id] = count.get(y.id, 0) + 2
            al = {k: v for k, v in al.items() if count.get(k) == 1}
            self._alias_cache = cache = (node, al)
        al = cache[1]
        parts = fname.split('.')
        seen = set()
        while parts[0] in al and parts[0] not in seen:
            seen.add(parts[0])
            parts = al[parts[0]].split('.') + parts[1:]
        return '.'.join(parts)

    # -- conditions ----------------------------------------------------------
    def branch(self, test, s):
        """Evaluate a test; returns [(state, bool)] forking on unknowns."""
        forced = self.h.decide(self, test, s)
        if forced is not None:
            return [(s, bool(forced))]
        if isinstance(test, ast.UnaryOp) and isinstance(test.op, ast.Not):
            return [(s2, not r) for s2, r in self.branch(test.operand, s)]
        if isinstance(test, ast.BoolOp):
            is_and = isinstance(test.op, ast.And)
            results = []
            pending = [s]
            for i, v in enumerate(test.values):
                nxt = []
                for st in pending:
                    for s2, r in self.branch(v, st):
                        if is_and and not r:
                            results.append((s2, False))
                        elif (not is_and) and r:
                            results.append((s2, True))
                        else:
                            nxt.append(s2)
                pending = nxt
            results.extend((st, is_and) for st in pending)
            return results
        outs = []
        results = self.inline(test, s) if isinstance(test, ast.Call) else None
        for s2, v in (results if results is not None else self.expr(test, s)):
            if self.precise_exc and '__exc' in s2.env:
                outs.append((s2, False))          # evaluating the test raised: the caller routes the state to the handler
                continue
            t = self.truth_in(v, s2)
            if t is not None:
                if self.record_conds:
                    self.emit(s2, ('cond', _text(test), t))
                outs.append((s2, t))
                continue
            txt = _text(test)
            if txt in s2.assumed:
                outs.append((s2, s2.assumed[txt]))
                continue
            f = s2.fork()
            self.unknown_branches.append('%s (line %s)' % (txt[:80], getattr(test, 'lineno', '?')))
            s2.assumed[txt] = True
            f.assumed[txt] = False
            self.emit(s2, ('assume', txt, True))
            self.emit(f, ('assume', txt, False))
            self._refine(test, True, s2)
            self._refine(test, False, f)
            outs.append((s2, True))
            outs.append((f, False))
        return outs

    def _refine(self, test, outcome, s):
        """Learn from an assumed comparison `name == const` / truth of a name."""
        if isinstance(test, (ast.Name, ast.Attribute)):
            cur = s.env.get(_text(test), None)
            if isinstance(cur, Sym) and cur.truthy is None:
                s.env[_text(test)] = Sym(cur.label, truthy=outcome, cls=cur.cls, attrs=cur.attrs)
            return
        if isinstance(test, ast.Compare) and len(test.ops) == 1:
            op = test.ops[0]
            l, r = test.left, test.comparators[0]
            if isinstance(op, (ast.Eq, ast.Is)) and outcome or isinstance(op, (ast.NotEq, ast.IsNot)) and not outcome:
                if isinstance(l, (ast.Name, ast.Attribute)):
                    for _s, v in self.expr(r, s, fork=False):
                        if is_concrete(v) and not isinstance(v, (list, dict)):
                            if s.env.get(_text(l), TOP) is TOP:
                                s.env[_text(l)] = v

    def truth_in(self, v, s):
        """Truth value of v in state s; a heap object whose class defines __len__ (or __iter__) is true iff non-empty."""
        if self.heap and isinstance(v, Obj) and isinstance(v.cls, M.ClassInfo) and self.model is not None \
           and (self.model.find_method(v.cls, '__len__') is not None or self.model.find_method(v.cls, '__bool__') is not None):
            items = self.materialize(v, s)
            if isinstance(items, list):
                return len(items) > 0
            for meth_ in ('__bool__', '__len__'):
                if self.model.find_method(v.cls, meth_) is not None and self.inline_depth > 0 and len(self._inline_stack) < self.inline_depth:
                    try:
                        r_ = self._call_obj_method(v, meth_, [], s, 0)        # bool(obj): its __bool__, else whether its __len__ is not 0
                    except AnalysisError:
                        r_ = None
                    if r_ is not None and isinstance(r_[0], (bool, int)) and '__exc' not in s.env:
                        return bool(r_[0])
                    break
            return None
        if isinstance(v, Obj) and isinstance(v.attrs.get('__dict'), dict):
            return bool(v.attrs['__dict'])
        return self.truth(v)

    def truth(self, v):
        if v is TOP or isinstance(v, M.Unknown):
            return None
        if isinstance(v, EnumVal):
            # a member of an IntEnum is the number it stands for (0 is false); members of a plain Enum are always true
            return bool(v.attrs['value']) if v.int_like else True
        if isinstance(v, Sym):
            return v.truthy
        if isinstance(v, (Inst, M.ClassInfo, M.FunctionInfo, M.ModuleInfo, M.External)):
            return True
        if isinstance(v, (list, tuple, dict, set)) and not is_concrete(v):
            return bool(len(v)) if len(v) else False
        try:
            return bool(v)
        except Exception:
            return None

    # -- expressions -----------------------------------------------------------
    def expr(self, n, s, fork=True):
        """Evaluate expression; returns [(state, value)].  Only boolean
        sub-expressions inside IfExp fork; everything else is single-valued."""
        return [(s, self.ev(n, s))]

    def ev(self, n, s):
        meth = getattr(self, 'ev_' + type(n).__name__, None)
        if meth is None:
            raise AnalysisError('expression %s not modelled (line %s)' % (type(n).__name__, getattr(n, 'lineno', '?')))
        return meth(n, s)

    def ev_Constant(self, n, s):
        return n.value

    def ev_Name(self, n, s):
        if n.id in s.env:
            return s.env[n.id]
        if n.id in ('True', 'False', 'None'):
            return {'True': True, 'False': False, 'None': None}[n.id]
        v = self.h.lookup(self, n.id, s)
        if v is not None:
            return v
        if self.model is not None and self.scope is not None:
            # function-local names shadow globals: only resolve names that are
            # not assigned anywhere in the analysed function
            if n.id not in self._locals():
                r = self.model.resolve_name(self.scope, n.id)
                v = self._from_model(r)
                if n.id in _BUILTIN_TYPES and (v is TOP or (isinstance(v, M.External) and v.name in (n.id, 'builtins.' + n.id))):
                    return _BUILTIN_TYPES[n.id]
                return v
        if n.id in _BUILTIN_TYPES:
            return _BUILTIN_TYPES[n.id]
        return TOP

    def _locals(self):
        fn = self.scope
        cache = getattr(self, '_locals_cache', None)
        if cache is None or cache[0] is not fn:
            names = set()
            node = getattr(fn, 'node', None)
            if isinstance(node, (ast.FunctionDef, ast.AsyncFunctionDef)):
                gl = set()
                for x in M.walk_no_nested(node):
                    if isinstance(x, ast.Global):
                        gl.update(x.names)
                for x in M.walk_no_nested(node):
                    if isinstance(x, ast.Name) and isinstance(x.ctx, (ast.Store, ast.Del)):
                        names.add(x.id)
                    elif isinstance(x, ast.arg):
                        names.add(x.arg)
                    elif isinstance(x, ast.ExceptHandler) and x.name:
                        names.add(x.name)
                a = node.args
                for arg in a.posonlyargs + a.args + a.kwonlyargs + [a.vararg, a.kwarg]:
                    if arg is not None:
                        names.add(arg.arg)
                names -= gl
            self._locals_cache = (fn, names)
            cache = self._locals_cache
        return cache[1]

    def _module_level_value(self, mod, name, need_body=False):
        """(value,) of a module-level name built by several statements or by an expression that constant folding does not follow
        (TABLE = [''] * 16 ; TABLE[11] = letters() / a comprehension): those statements interpreted in order.  None when this does
        not apply (`need_body`: only when the module changes the name after binding it)."""
        cache = self.model.__dict__.setdefault('_module_values', {})
        key = (mod.name, name)
        if key not in cache:
            stmts = []
            mutated = False
            for st in mod.tree.body:
                tgts = st.targets if isinstance(st, ast.Assign) else [st.target] if isinstance(st, (ast.AugAssign, ast.AnnAssign)) else []
                roots = set()
                for t in tgts:
                    x = t
                    while isinstance(x, (ast.Subscript, ast.Attribute)):
                        x = x.value
                    if isinstance(x, ast.Name):
                        roots.add((x.id, x is not t or isinstance(st, ast.AugAssign)))
                if isinstance(st, ast.Expr) and isinstance(st.value, ast.Call) and isinstance(st.value.func, ast.Attribute) \
                   and isinstance(st.value.func.value, ast.Name) and st.value.func.value.id == name:
                    roots.add((name, True))
                for nm, mut in roots:
                    if nm == name:
                        stmts.append(st)
                        mutated = mutated or mut
            cache[key] = None
            if stmts and (mutated or not need_body):
                saved = (self.scope, getattr(self, '_locals_cache', None), self.h)
                marks = (len(self.imprecise), len(self.unknown_branches), len(IMPRECISION))
                try:
                    self.scope, self.h, self._locals_cache = mod, Hooks(), None
                    self.h.keep = lambda ev: False
                    cache[key] = (None, mutated)              # (guards the recursion)
                    outs = self.block(stmts, [State({})])
                    falls = outs.get('fall', [])
                    clean = (len(self.imprecise), len(self.unknown_branches)) == marks[:2]
                    if len(falls) == 1 and name in falls[0][0].env and falls[0][0].env[name] is not TOP and clean:
                        cache[key] = ((falls[0][0].env[name],), mutated)
                    else:
                        cache[key] = None
                except AnalysisError:
                    cache[key] = None
                finally:
                    self.scope, self._locals_cache, self.h = saved
                    del self.imprecise[marks[0]:], self.unknown_branches[marks[1]:], IMPRECISION[marks[2]:]
        hit = cache[key]
        if hit is None or hit[0] is None or (need_body and not hit[1]):
            return None
        v = hit[0][0]
        return (copy.deepcopy(v) if isinstance(v, (list, dict, set)) else v,)

    def _from_model(self, r):
        if r is None:
            return TOP
        if isinstance(r, tuple) and r[0] == 'assign':
            rhs = r[2][-1]
            if isinstance(rhs, ast.Call) and _text(rhs) == 'object()':
                return Sym('sentinel@%d_%d' % (rhs.lineno, rhs.col_offset), truthy=True, attrs={'distinct': True})   # (one marker per object() expression)
            if any(isinstance(x, ast.Call) and _text(x.func) == 're.compile' for x in ast.walk(rhs)):
                v = self._const_obj(rhs, r[1])
                if v is not TOP:
                    return v
            v = self.model.eval_const(r[1], rhs)
            if isinstance(r[1], M.ModuleInfo) and (M.is_unknown(v) or isinstance(v, (list, dict, set))):
                name = next((nm for nm, ex in r[1].assigns.items() if ex is r[2]), None)
                if name is not None:
                    mv = self._module_level_value(r[1], name, need_body=not M.is_unknown(v))
                    if mv is not None:
                        return mv[0]
            if M.is_unknown(v) and self.heap:
                # tables of functions / classes, partial objects, namedtuple classes ... defined at module or class level
                cache = self.model.__dict__.setdefault('_toplevel_values', {})
                key = (getattr(r[1], 'fullname', None) or getattr(r[1], 'name', None), id(rhs))
                if key not in cache:
                    cache[key] = TOP               # (guards against recursion through the definition itself)
                    saved_scope = self.scope
                    marks = (len(self.imprecise), len(self.unknown_branches), len(IMPRECISION))
                    saved_run_init, self.run_init = self.run_init, True       # (a constructor that cannot be interpreted makes the value unknown)
                    try:
                        self.scope = r[1] if isinstance(r[1], (M.ModuleInfo, M.ClassInfo, M.FunctionInfo)) else self.scope
                        self._locals_cache = None
                        st = State({})
                        val = self.ev(rhs, st)
                        clean = (len(self.imprecise), len(self.unknown_branches)) == marks[:2]
                        if '__exc' not in st.env and not (val is TOP) and clean:
                            cache[key] = val
                    except AnalysisError:
                        pass
                    finally:
                        self.scope = saved_scope
                        self._locals_cache = None
                        self.run_init = saved_run_init
                        # what could not be evaluated here is simply not known (as before): no note against the scenario
                        del self.imprecise[marks[0]:], self.unknown_branches[marks[1]:], IMPRECISION[marks[2]:]
                return cache[key]
            return TOP if M.is_unknown(v) else v
        return r

    def ev_Attribute(self, n, s):
        txt = _text(n)
        if txt in s.env:
            return s.env[txt]
        if isinstance(n.value, ast.Name):
            o = s.env.get(n.value.id)
            if isinstance(o, Obj) and n.attr in o.attrs:
                return o.attrs[n.attr]
        v = self.h.lookup(self, txt, s)
        if v is not None:
            return v
        if isinstance(n.value, ast.Name) and n.value.id in ('self', 'cls') and self.model is not None:
            cls = getattr(self.h, 'cls', None) or getattr(self.scope, 'cls', None)
            me = s.env.get(n.value.id)
            if isinstance(me, Obj) and isinstance(me.cls, M.ClassInfo):
                cls = me.cls
            if isinstance(cls, M.ClassInfo):
                mth = self.model.find_method(cls, n.attr)
                if mth is not None and not (mth.cls is not None and n.attr in mth.cls.properties):
                    return Sym('method:%s' % n.attr, truthy=True)
        base = self.ev(n.value, s)
        if self.heap and isinstance(base, Obj) and isinstance(base.cls, M.ClassInfo) and n.attr not in base.attrs \
           and self.model is not None and self.inline_depth > 0 and len(self._inline_stack) < self.inline_depth:
            getter = None
            for k in self.model.mro(base.cls):
                if isinstance(k, M.ClassInfo) and n.attr in k.properties and 'get' in k.properties[n.attr]:
                    getter = k.properties[n.attr]['get']
                    break
                if isinstance(k, M.ClassInfo) and (n.attr in k.methods or n.attr in k.assigns):
                    break
            if getter is not None:
                # a property of a heap object: interpret its getter on that object (single outcome only)
                call = ast.Call(func=ast.Attribute(value=n.value, attr=n.attr, ctx=ast.Load()), args=[], keywords=[])
                ast.copy_location(call, n)
                ast.copy_location(call.func, n)
                res = self._inline_single(call, s, prop=True)
                return res[0] if res is not None else TOP
        return self.getattr(base, n.attr, n, s)

    def _const_obj(self, node, scope):
        """Value of a constant expression that may contain re.compile(<constants>) inside tuples / lists / dicts."""
        if isinstance(node, ast.Call) and _text(node.func) == 're.compile' and node.args and not node.keywords:
            def flag(a):
                # re.I | re.S
                if isinstance(a, ast.Attribute) and _text(a.value) == 're' and a.attr.isupper() and isinstance(getattr(_re_mod, a.attr, None), int):
                    return int(getattr(_re_mod, a.attr))
                if isinstance(a, ast.BinOp) and isinstance(a.op, ast.BitOr):
                    l, r = flag(a.left), flag(a.right)
                    return (l | r) if isinstance(l, int) and isinstance(r, int) else None
                return None
            cargs = [flag(a) if flag(a) is not None else self.model.eval_const(scope, a) for a in node.args]
            if isinstance(cargs[0], str) and all(isinstance(a, (str, int)) and not isinstance(a, bool) for a in cargs):
                try:
                    return _re_mod.compile(*cargs)
                except Exception:
                    return TOP
            return TOP
        if isinstance(node, (ast.Tuple, ast.List)):
            items = [self._const_obj(e, scope) for e in node.elts]
            if any(x is TOP for x in items):
                return TOP
            return tuple(items) if isinstance(node, ast.Tuple) else items
        if isinstance(node, ast.Dict) and all(k is not None for k in node.keys):
            ks = [self._const_obj(k, scope) for k in node.keys]
            vs = [self._const_obj(v, scope) for v in node.values]
            if any(x is TOP for x in ks + vs):
                return TOP
            try:
                return dict(zip(ks, vs))
            except TypeError:
                return TOP
        v = self.model.eval_const(scope, node)
        return TOP if M.is_unknown(v) else v

    def _class_level_object(self, cls, attr):
        """A class attribute bound to a nested class, or to a library object built from constants (a compiled pattern)."""
        for k in self.model.mro(cls):
            if isinstance(k, M.ClassInfo) and attr in k.nested:
                return k.nested[attr]
            if isinstance(k, M.ClassInfo) and (attr in k.assigns or attr in k.methods):
                break
        owner = self.model.find_attr_class(cls, attr)
        if owner is not None and attr in owner.assigns and attr in self.model.body_mutated(owner):
            # built step by step in the class body: that body, interpreted
            cache = self.model.__dict__.setdefault('_class_body_values', {})
            if owner.fullname not in cache:
                cache[owner.fullname] = {}
                saved = (self.scope, getattr(self, '_locals_cache', None), self.h, self.heap)
                marks = (len(self.imprecise), len(self.unknown_branches), len(IMPRECISION))
                try:
                    self.scope, self.h, self._locals_cache = owner, Hooks(), None
                    stmts = [x for x in owner.node.body if not isinstance(x, (ast.FunctionDef, ast.AsyncFunctionDef, ast.ClassDef))
                             and not (isinstance(x, ast.Expr) and isinstance(x.value, ast.Constant))]
                    outs = self.block(stmts, [State({})])
                    falls = outs.get('fall', [])
                    if len(falls) == 1:
                        cache[owner.fullname] = dict(falls[0][0].env)
                except AnalysisError:
                    pass
                finally:
                    self.scope, self._locals_cache, self.h, self.heap = saved
                    del self.imprecise[marks[0]:], self.unknown_branches[marks[1]:], IMPRECISION[marks[2]:]
            v = cache[owner.fullname].get(attr, TOP)
            return copy.deepcopy(v) if isinstance(v, (list, dict)) and not any(isinstance(x, (Obj, TextObj)) for x in (v.values() if isinstance(v, dict) else v)) else v
        if owner is not None and attr in owner.assigns:
            rhs = owner.assigns[attr][-1]
            v = self._from_model(('assign', owner, [rhs]))
            if v is TOP and isinstance(rhs, (ast.Call, ast.Tuple, ast.List, ast.Dict)) and not getattr(self, '_in_class_eval', False):
                # a table built in the class body (e.g. compiled patterns made by a comprehension): constant evaluation
                saved = (self.scope, getattr(self, '_locals_cache', None), self.h)
                self._in_class_eval = True
                try:
                    self.scope, self.h = owner, Hooks()
                    self._locals_cache = None
                    r = self.ev(rhs, State({}))
                    if r is not TOP and not isinstance(r, Sym):
                        v = r if not isinstance(r, Iter) else list(r.items)
                except Exception:
                    v = TOP
                finally:
                    self.scope, self._locals_cache, self.h = saved
                    self._in_class_eval = False
            return v
        return TOP

    def _enum_kind(self, cls):
        """'plain' / 'int' / 'str' when `cls` derives from enum.Enum / IntEnum / StrEnum, else None."""
        if self.model is None:
            return None
        kind = None
        for k in self.model.mro(cls):
            nm = getattr(k, 'name', '') if isinstance(k, M.External) else ''
            last = nm.split('.')[-1]
            if last in ('IntEnum', 'IntFlag'):
                return 'int'
            if last == 'StrEnum':
                return 'str'
            if last in ('Enum', 'Flag'):
                kind = kind or 'plain'
        return kind

    def _enum_members(self, cls, s):
        """The members of an enum class of the analysed code in definition order ([EnumVal]); None when cls is no enum or a member's
        value is not determined."""
        if not isinstance(cls, M.ClassInfo) or self._enum_kind(cls) is None:
            return None
        out = []
        for st in cls.node.body:
            names = []
            if isinstance(st, ast.Assign):
                names = [t.id for t in st.targets if isinstance(t, ast.Name)]
            elif isinstance(st, ast.AnnAssign) and isinstance(st.target, ast.Name) and st.value is not None:
                names = [st.target.id]
            for nm in names:
                if nm.startswith('_'):
                    continue
                v = self.getattr(cls, nm, st, s)
                if not isinstance(v, EnumVal):
                    return None
                if not any(v.attrs['value'] == o.attrs['value'] for o in out):      # (a repeated value is an alias, not a member)
                    out.append(v)
        return out

    def _shared_container(self, cls, attr, v, s):
        """A mutable container bound at class level is one object for the whole run: the first read puts it on the heap (under the class
        that defines it), later reads and the mutations in between see that object."""
        if not (self.heap and self.precise_exc and isinstance(v, (list, dict, set)) and self.model is not None):
            return v
        owner = self.model.find_attr_class(cls, attr) or cls
        key = '__cls:%s.%s' % (owner.fullname, attr)
        if key not in s.env:
            s.env[key] = v
        return s.env[key]

    def _dynamic_class_attr(self, cls, attr, s):
        """(value,) of a class attribute assigned by the interpreted code (Class.attr = v), looked up along the MRO; None otherwise."""
        if not self.heap or self.model is None or not any(k.startswith('__cls:') for k in s.env):
            return None
        for k in self.model.mro(cls):
            if not isinstance(k, M.ClassInfo):
                continue
            key = '__cls:%s.%s' % (k.fullname, attr)
            if key in s.env:
                return (s.env[key],)
            if attr in k.assigns or attr in k.methods:
                return None
        return None

    def getattr(self, base, attr, n, s):
        m = self.model
        if isinstance(base, Inst) and isinstance(base.cls, M.ClassInfo) and m is not None:
            v = m.class_const(base.cls, attr)
            return TOP if M.is_unknown(v) else v
        if isinstance(base, TokStr) and attr in base._attrs:
            return base._attrs[attr]
        if isinstance(base, (TextObj, ListObj)) and attr in base.attrs:
            return base.attrs[attr]
        if isinstance(base, Obj):
            if attr in base.attrs:
                return base.attrs[attr]
            if self.precise_exc and self.heap and getattr(self.h, 'absent_attr', None) is not None and self.h.absent_attr(base, attr):
                s.env['__exc'] = 'AttributeError'        # the scenario knows that this object has no such attribute (yet)
                return TOP
            if isinstance(base.attrs.get('__dict'), dict) and attr in ('keys', 'values', 'items', 'get', 'update', 'clear', 'pop', 'setdefault', 'copy') \
               and (m is None or not isinstance(base.cls, M.ClassInfo) or m.find_method(base.cls, attr) is None):
                return ('boundmethod', base.attrs['__dict'], attr)
            if isinstance(base.cls, M.ClassInfo) and m is not None:
                dyn = self._dynamic_class_attr(base.cls, attr, s)
                if dyn is not None:
                    return dyn[0]
                v = m.class_const(base.cls, attr)
                if M.is_unknown(v):
                    v = self._class_level_object(base.cls, attr)
                    if isinstance(v, PropertyVal):
                        r_ = self.apply_value(v.fget, [base], {}, s, getattr(n, 'lineno', 0)) if v.fget is not None else None
                        if r_ is None:
                            self.imprecise.append('the property %s (made by a property(...) call) could not be read (line %s)' % (attr, getattr(n, 'lineno', '?')))
                            return TOP
                        return r_[0]
                    if v is TOP and self.heap:
                        fn_ = m.find_method(base.cls, attr)
                        if fn_ is not None and fn_.cls is not None and attr not in fn_.cls.properties:
                            # a method taken as a value (self.keys = top.keys): remembers its receiver
                            return Sym('boundmethod:%s' % fn_.fullname, truthy=True, attrs={'recv': base, 'fn': fn_})
                    if v is TOP and base.attrs.get('__closed') and self.precise_exc and m.find_attr_class(base.cls, attr) is None \
                       and not (isinstance(base.attrs.get('__dict'), dict) and hasattr(dict, attr)):
                        s.env['__exc'] = 'AttributeError'     # an object built by its own __init__: it has no such attribute
                    return v
                return self._shared_container(base.cls, attr, v, s)
            return TOP
        if isinstance(base, Sym):
            if attr in base.attrs:
                return base.attrs[attr]
            if isinstance(base.cls, M.ClassInfo) and m is not None:
                v = m.class_const(base.cls, attr)
                return TOP if M.is_unknown(v) else v
            return TOP
        if isinstance(base, (M.ClassInfo, M.ModuleInfo)) and m is not None:
            if isinstance(base, M.ClassInfo):
                ek = self._enum_kind(base)
                if ek is not None and attr in base.assigns and not attr.startswith('_'):
                    val = m.class_const(base, attr)
                    e_ = base.assigns[attr][-1]
                    if isinstance(e_, ast.Call) and not e_.args and _text(e_.func).split('.')[-1] == 'auto':
                        # enum.auto(): the members are numbered 1, 2, ... in the order of their definition
                        names_ = [t.id for st_ in base.node.body if isinstance(st_, ast.Assign) for t in st_.targets
                                  if isinstance(t, ast.Name) and not t.id.startswith('_')]
                        val = names_.index(attr) + 1 if attr in names_ else TOP
                    if M.is_unknown(val):
                        val = self._class_level_object(base, attr)
                    if isinstance(val, Sym) and val.label.startswith('func:'):
                        pass
                    elif val is not TOP:
                        return EnumVal.of(base, attr, val, int_like=(ek == 'int'))
                dyn = self._dynamic_class_attr(base, attr, s)
                if dyn is not None:
                    return dyn[0]
                if attr == '__members__' and ek is not None:
                    mem = self._enum_members(base, s)
                    if mem is not None:
                        return {e_.attrs['name']: e_ for e_ in mem}
                if attr in ('__name__', '__qualname__', '__module__') and attr not in base.assigns:
                    return {'__name__': base.name, '__qualname__': base.qualname, '__module__': base.module.name}[attr]
                v = m.class_const(base, attr)
                if not M.is_unknown(v):
                    return self._shared_container(base, attr, v, s)
                o = self._class_level_object(base, attr)
                if o is not TOP:
                    return o
            r = m.getattr_static(base, attr)
            if isinstance(base, M.ClassInfo) and isinstance(r, M.FunctionInfo) and self.heap \
               and any(d.split('.')[-1] == 'classmethod' for d in r.decorators):
                # Class.method of a class method: bound to the class it is taken from
                return Sym('boundmethod:%s' % r.fullname, truthy=True, attrs={'recv': base, 'fn': r})
            return self._from_model(r)
        if isinstance(base, M.External) and base.name == 're' and attr in ('I', 'S', 'M', 'X', 'A', 'U', 'IGNORECASE', 'DOTALL', 'MULTILINE', 'VERBOSE', 'ASCII', 'UNICODE'):
            return int(getattr(_re_mod, attr))
        if isinstance(base, M.External) and base.name in ('re', 'operator', 'os', 'os.path', 'glob', 'posixpath', 'string', 'itertools', 'html', 'functools', 'collections',
                                                          'contextlib', 'itertools.chain', 'urllib', 'urllib.parse') and not attr.startswith('_') \
           and not (base.name == 'string' and attr != 'Template'):
            return M.External('%s.%s' % (base.name, attr))
        if isinstance(base, type) and base in (str, int, float, bool, list, dict, tuple, set, bytes, object) and not attr.startswith('__') and hasattr(base, attr):
            return getattr(base, attr)                 # str.strip, dict.fromkeys, str.maketrans ... as values
        if isinstance(base, type) and issubclass(base, tuple) and hasattr(base, '_fields') and attr in ('_fields', '_make', '_field_defaults'):
            return getattr(base, attr)
        if isinstance(base, tuple) and hasattr(type(base), '_fields'):
            if attr in type(base)._fields:
                return getattr(base, attr)             # a field of a namedtuple made by the analysed code
            if attr in ('_replace', '_asdict', 'index', 'count'):
                return ('boundmethod', base, attr)
        if isinstance(base, M.External) and base.name == 'sys' and attr == 'maxsize':
            import sys as _sys
            return _sys.maxsize
        if isinstance(base, M.External) and base.name == 'string' and attr in ('digits', 'ascii_letters', 'ascii_lowercase', 'ascii_uppercase',
                                                                              'hexdigits', 'octdigits', 'punctuation', 'whitespace'):
            import string as _string
            return getattr(_string, attr)
        if isinstance(base, str) and not attr.startswith('_') and callable(getattr(str, attr, None)):
            return ('boundmethod', base, attr)
        if isinstance(base, str) and attr in ('__contains__', '__getitem__', '__len__', '__eq__', '__ne__') and not isinstance(base, TextObj):
            return ('boundmethod', base, attr)
        if isinstance(base, bytes) and not attr.startswith('_') and callable(getattr(bytes, attr, None)):
            return ('boundmethod', base, attr)
        if isinstance(base, _REAL_TYPES) and not attr.startswith('_') and callable(getattr(base, attr, None)):
            return ('boundmethod', base, attr)
        if isinstance(base, _pathlib.PurePosixPath) and attr in ('name', 'stem', 'suffix', 'parent', 'parts', 'suffixes'):
            return getattr(base, attr)
        if isinstance(base, (list, dict)) and attr in ('append', 'extend', 'insert', 'pop', 'copy', 'keys', 'values', 'items', 'get', 'update', 'clear', 'index', 'remove', 'reverse', 'setdefault') \
           and hasattr(type(base), attr):
            return ('boundmethod', base, attr)
        if isinstance(base, DequeList) and attr in ('appendleft', 'popleft', 'extendleft', 'rotate'):
            return ('boundmethod', base, attr)
        if isinstance(base, DequeList) and attr == 'maxlen':
            return base.maxlen
        if isinstance(base, (list, dict, tuple)) and not isinstance(base, ListObj) and attr in ('__getitem__', '__contains__', '__len__', 'count', 'index') and hasattr(type(base), attr):
            return ('boundmethod', base, attr)         # table.__getitem__ handed to map() and the like
        if isinstance(base, set) and attr in ('add', 'discard', 'remove', 'update', 'clear', 'copy', 'pop', 'union', 'intersection', 'difference', 'issubset', 'issuperset'):
            return ('boundmethod', base, attr)
        if self.precise_exc and self.heap and (base is None or (isinstance(base, (list, dict, tuple, int, float, bool, str)) and not isinstance(base, (ListObj, TextObj, TokStr, M._StringLetters)))) \
           and not hasattr(type(base), attr):
            s.env['__exc'] = 'AttributeError'         # a Python value of a builtin type has no such attribute
        return TOP

    def ev_Subscript(self, n, s):
        txt = _text(n)
        if txt in s.env:
            return s.env[txt]
        base = self.ev(n.value, s)
        if isinstance(n.slice, ast.Slice):
            lo = self.ev(n.slice.lower, s) if n.slice.lower else None
            hi = self.ev(n.slice.upper, s) if n.slice.upper else None
            st = self.ev(n.slice.step, s) if n.slice.step else None
            if isinstance(base, (list, tuple, str)) and all(x is None or isinstance(x, int) for x in (lo, hi, st)):
                if not isinstance(base, M._StringLetters):
                    return base[lo:hi:st]
            return TOP
        if self.heap and isinstance(base, Obj) and isinstance(base.cls, M.ClassInfo) and '__items' not in base.attrs and self.model is not None \
           and isinstance(n.ctx, ast.Load) and self.inline_depth > 0 and len(self._inline_stack) < self.inline_depth \
           and self.model.find_method(base.cls, '__getitem__') is not None:
            bkey = '__base@%d' % len(self._inline_stack)
            s.env[bkey] = base            # the receiver was evaluated once above
            call = ast.Call(func=ast.Attribute(value=ast.Name(id=bkey, ctx=ast.Load()), attr='__getitem__', ctx=ast.Load()), args=[n.slice], keywords=[])
            for x in ast.walk(call):
                if not hasattr(x, 'lineno'):
                    ast.copy_location(x, n)
            res = self._inline_single(call, s)
            s.env.pop(bkey, None)
            return res[0] if res is not None else TOP
        idx = self.ev(n.slice, s)
        if isinstance(base, Obj) and isinstance(base.attrs.get('__items'), dict) and is_concrete(idx):
            items = base.attrs['__items']
            try:
                if idx in items:
                    return items[idx]
                if base.attrs.get('__auto'):
                    items[idx] = Obj('%s[%r]' % (base.label, idx))      # an object per key, created on first use
                    return items[idx]
            except TypeError:
                pass
            if self.precise_exc and base.attrs.get('__complete'):
                s.env['__exc'] = 'KeyError'
                return TOP
            self._maythrow += 1
            return TOP
        if isinstance(base, Obj) and isinstance(base.attrs.get('__dict'), dict):
            base = base.attrs['__dict']          # an instance of a dict subclass without its own __getitem__
        if isinstance(base, M.ClassInfo) and isinstance(idx, str) and self.model is not None and self._enum_kind(base) is not None:
            v_ = self.getattr(base, idx, n, s) if idx in base.assigns else None
            if isinstance(v_, EnumVal):
                return v_                     # Colour['RED']
            if v_ is None and self.precise_exc and self._enum_members(base, s) is not None:
                s.env['__exc'] = 'KeyError'
            return TOP
        if isinstance(idx, EnumVal) and idx.int_like and isinstance(base, (list, tuple, str)):
            idx = idx.attrs['value']             # a member of an IntEnum used as an index
        if isinstance(base, (list, tuple, str, dict)) and is_concrete(idx) and not isinstance(base, M._StringLetters):
            try:
                return base[idx]
            except (KeyError, IndexError) as e:
                if self.precise_exc:
                    s.env['__exc'] = type(e).__name__
                return TOP
            except Exception:
                return TOP
        self._maythrow += 1
        return TOP

    def _display_items(self, n, s):
        """The items of a list / tuple / set display; *iterable items are spread.  None when a spread value is not determined."""
        out = []
        for e in n.elts:
            if isinstance(e, ast.Starred):
                v = self.ev(e.value, s)
                seq = self._seq_in(v, s)
                if seq is None:
                    if self.heap:
                        self.imprecise.append('the items spread by *%s are not determined (line %s)' % (_text(e.value)[:40], getattr(n, 'lineno', '?')))
                    return None
                out.extend(seq)
            else:
                out.append(self.ev(e, s))
        return out

    def ev_Tuple(self, n, s):
        if any(isinstance(e, ast.Starred) for e in n.elts):
            items = self._display_items(n, s)
            return TOP if items is None else tuple(items)
        return tuple(self.ev(e, s) for e in n.elts)

    def ev_List(self, n, s):
        if any(isinstance(e, ast.Starred) for e in n.elts):
            items = self._display_items(n, s)
            return TOP if items is None else items
        return [self.ev(e, s) for e in n.elts]

    def ev_Set(self, n, s):
        vals = self._display_items(n, s) if any(isinstance(e, ast.Starred) for e in n.elts) else [self.ev(e, s) for e in n.elts]
        if vals is None:
            return TOP
        try:
            return set(vals)
        except TypeError:
            return TOP

    def ev_Dict(self, n, s):
        out = {}
        for k, v in zip(n.keys, n.values):
            if k is None:
                d = self.ev(v, s)             # {**mapping}: the entries of that mapping, later ones win
                if isinstance(d, Obj) and isinstance(d.attrs.get('__dict'), dict):
                    d = d.attrs['__dict']
                if isinstance(d, dict):
                    out.update(d)
                    continue
                if self.heap:
                    self.imprecise.append('{**%s}: the mapping is not determined (line %s)' % (_text(v)[:40], getattr(n, 'lineno', '?')))
                return TOP
            kk, vv = self.ev(k, s), self.ev(v, s)
            try:
                out[kk] = vv
            except TypeError:
                return TOP
        return out

    def ev_JoinedStr(self, n, s):
        parts = []
        ok = True
        for v in n.values:
            if isinstance(v, ast.Constant):
                parts.append(str(v.value))
            else:
                x = self.ev(v.value, s)
                if is_concrete(x) and isinstance(x, (str, int)):
                    parts.append(str(x))
                else:
                    ok = False
        return ''.join(parts) if ok else TOP

    def ev_FormattedValue(self, n, s):
        return self.ev(n.value, s)

    def ev_Starred(self, n, s):
        self.ev(n.value, s)
        return TOP

    def ev_Lambda(self, n, s):
        # a lambda is a nested function whose body is `return <expr>`
        fd = ast.FunctionDef(name='<lambda@%d>' % n.lineno, args=n.args, body=[ast.Return(value=n.body)], decorator_list=[], returns=None, type_comment=None)
        for x in (fd, fd.body[0]):
            ast.copy_location(x, n)
        params = {a.arg for a in n.args.posonlyargs + n.args.args + n.args.kwonlyargs} | {a.arg for a in (n.args.vararg, n.args.kwarg) if a is not None}
        closure = {}
        for x in ast.walk(n.body):
            if isinstance(x, ast.Name) and x.id not in params and x.id in s.env and not x.id.startswith('__'):
                v = s.env[x.id]
                if _plain(v) or isinstance(v, (M.ClassInfo, M.FunctionInfo, M.External)):
                    closure[x.id] = v           # constants of the defining scope (values that live on the heap are found there when called)
        return Sym('func:<lambda@%d>' % n.lineno, truthy=True, attrs={'node': fd, 'closure': closure})

    def call_value(self, fval, argvalues, s, lineno=0):
        """Apply a function value (nested function / lambda) to values; (result,) when it has exactly one outcome, else None."""
        if not (isinstance(fval, Sym) and isinstance(fval.attrs.get('node'), ast.FunctionDef)):
            return None
        d = len(self._inline_stack)
        fkey = '__fn@%d' % d
        s.env[fkey] = fval
        names = []
        for i, v in enumerate(argvalues):
            k = '__arg%d@%d' % (i, d)
            s.env[k] = v
            names.append(ast.Name(id=k, ctx=ast.Load()))
        call = ast.Call(func=ast.Name(id=fkey, ctx=ast.Load()), args=names, keywords=[])
        for x in ast.walk(call):
            x.lineno, x.col_offset, x.end_lineno, x.end_col_offset = lineno, 0, lineno, 0
        try:
            return self._inline_single(call, s)
        finally:
            for k in [fkey] + [nm.id for nm in names]:
                s.env.pop(k, None)

    def _seq_of(self, v):
        """The remaining items of a finite sequence value (list, tuple, Iter, dict keys, str), consuming an Iter; None if unknown."""
        if isinstance(v, CountIter):
            return None
        if isinstance(v, Iter):
            items = list(v.items[v.pos:])
            v.pos = len(v.items)
            return items
        if isinstance(v, (list, tuple)):
            return list(v)
        if isinstance(v, dict):
            return list(v.keys())
        if isinstance(v, (set, frozenset)):
            return sorted(v, key=repr)
        if isinstance(v, str) and not isinstance(v, M._StringLetters):
            return list(v)
        if isinstance(v, range) and len(v) <= 4096:
            return list(v)
        return None

    def _seq_in(self, v, s):
        """As _seq_of; a heap object that defines __iter__ is iterated by interpreting that method."""
        if isinstance(v, (LazyGen, GenObj)):
            return self._drain(v, s)
        if isinstance(v, Obj):
            v = self.materialize(v, s)
        return self._seq_of(v)

    def _functional_call(self, n, fname, fval, args, kwargs, s):
        """functools / operator / itertools / collections helpers and calls of callable values.  (result,) or None."""
        ext = fval.name if isinstance(fval, M.External) else None
        if ext in ('functools.partial', 'partial') and args:
            return (Partial(args[0], args[1:], kwargs),)
        if ext in ('functools.partialmethod', 'partialmethod') and args:
            return (Partial(args[0], args[1:], kwargs),)
        if ext in ('operator.methodcaller', 'methodcaller') and args and isinstance(args[0], str):
            return (OpCall('methodcaller', [args[0]], args[1:], kwargs),)
        if ext in ('operator.attrgetter', 'attrgetter') and args and all(isinstance(a, str) for a in args) and not kwargs:
            return (OpCall('attrgetter', args),)
        if ext in ('operator.itemgetter', 'itemgetter') and args and not kwargs:
            return (OpCall('itemgetter', args),)
        if ext in ('functools.reduce', 'reduce') and len(args) in (2, 3) and not kwargs:
            seq = self._seq_in(args[1], s)
            if seq is None:
                return (TOP,)
            if len(args) == 3:
                acc = args[2]
            elif seq:
                acc, seq = seq[0], seq[1:]
            else:
                if self.precise_exc:
                    s.env['__exc'] = 'TypeError'
                return (TOP,)
            for item in seq:
                r = self.apply_value(args[0], [acc, item], {}, s, n.lineno)
                if r is None:
                    return (TOP,)
                acc = r[0]
            return (acc,)
        if ext in ('itertools.chain', 'chain') and not kwargs:
            out = []
            for a in args:
                seq = self._seq_in(a, s)
                if seq is None:
                    return (TOP,)
                out.extend(seq)
            return (Iter(out),)
        if ext in ('itertools.chain.from_iterable', 'chain.from_iterable') and len(args) == 1 and not kwargs:
            outer = self._seq_in(args[0], s)
            if outer is None:
                return (TOP,)
            out = []
            for a in outer:
                seq = self._seq_of(self.materialize(a, s))
                if seq is None:
                    return (TOP,)
                out.extend(seq)
            return (Iter(out),)
        if ext in ('itertools.repeat', 'repeat') and len(args) == 2 and isinstance(args[1], int) and not kwargs and 0 <= args[1] <= 4096:
            return (Iter([args[0]] * args[1]),)
        if ext in ('itertools.product', 'product') and args and set(kwargs) <= {'repeat'}:
            import itertools as _it
            seqs = [self._seq_in(a, s) for a in args]
            if any(x is None for x in seqs) or not isinstance(kwargs.get('repeat', 1), int):
                return (TOP,)
            return (Iter(list(_it.product(*seqs, repeat=kwargs.get('repeat', 1)))),)
        if ext in ('itertools.accumulate', 'accumulate') and 1 <= len(args) <= 2 and set(kwargs) <= {'initial'}:
            seq = self._seq_in(args[0], s)
            if seq is not None and all(_plain(x) for x in seq) and (len(args) == 1 or (callable(args[1]) and getattr(args[1], '__module__', '') in ('_operator', 'operator', 'builtins'))) \
               and _plain(kwargs.get('initial')):
                import itertools as _it
                try:
                    return (Iter(list(_it.accumulate(seq, *args[1:], **kwargs))),)
                except Exception:
                    return None
            return None
        if ext in ('itertools.islice', 'islice') and len(args) in (2, 3, 4) and not kwargs and all(a is None or isinstance(a, int) for a in args[1:]):
            import itertools as _it
            if isinstance(args[0], (LazyGen, GenObj)):
                # a lazy source: exactly the items islice would ask for are taken from it
                start, stop, step = (0, args[1], 1) if len(args) == 2 else (args[1] or 0, args[2], (args[3] if len(args) == 4 and args[3] else 1))
                if stop is None or stop > 4096:
                    return (TOP,)
                taken = []
                for i in range(stop):
                    item = self._take(args[0], s)
                    if item is STOP:
                        break
                    if item is None:
                        return (TOP,)
                    if i >= start and (i - start) % step == 0:
                        taken.append(None if item is _NONE_ITEM else item)
                return (Iter(taken),)
            if isinstance(args[0], Iter) and not isinstance(args[0], CountIter):
                it_ = args[0]
                taken = list(_it.islice(it_.items[it_.pos:], *args[1:]))
                # the underlying iterator advances by what was consumed
                if len(args) == 2:
                    it_.pos += len(taken)
                else:
                    stop = args[2]
                    it_.pos = len(it_.items) if stop is None else min(len(it_.items), it_.pos + stop)
                return (Iter(taken),)
            if isinstance(args[0], CountIter):
                c = args[0]
                vals = []
                rng = range(*[a for a in args[1:]]) if len(args) > 2 else range(args[1])
                if len(rng) > 4096:
                    return (TOP,)
                top = (max(rng) + 1) if len(rng) else 0
                seq = [c.take() for _ in range(top)]
                return (Iter([seq[i] for i in rng]),)
            seq = self._seq_in(args[0], s)
            if seq is None:
                return (TOP,)
            return (Iter(list(_it.islice(seq, *args[1:]))),)
        if ext in ('itertools.starmap', 'starmap') and len(args) == 2 and not kwargs:
            seq = self._seq_in(args[1], s)
            if seq is None:
                return (TOP,)
            out = []
            for item in seq:
                if not isinstance(item, (list, tuple)):
                    return (TOP,)
                r = self.apply_value(args[0], list(item), {}, s, n.lineno)
                if r is None:
                    return (TOP,)
                out.append(r[0])
            return (Iter(out),)
        if ext in ('itertools.zip_longest', 'zip_longest') and args and set(kwargs) <= {'fillvalue'}:
            import itertools as _it
            seqs = [self._seq_in(a, s) for a in args]
            if any(x is None for x in seqs):
                return (TOP,)
            return (Iter(list(_it.zip_longest(*seqs, **kwargs))),)
        if ext in ('itertools.groupby', 'groupby') and len(args) in (1, 2) and set(kwargs) <= {'key'}:
            seq = self._seq_in(args[0], s)
            keyf = args[1] if len(args) == 2 else kwargs.get('key')
            if seq is None:
                return (TOP,)
            out = []
            for item in seq:
                if keyf is None:
                    k = item
                else:
                    r = self.apply_value(keyf, [item], {}, s, n.lineno)
                    if r is None:
                        return (TOP,)
                    k = r[0]
                same = None
                if out:
                    same = self.compare(ast.Eq(), out[-1][0], k) if not (out[-1][0] is k) else True
                    if same is None:
                        return (TOP,)
                if out and same:
                    out[-1][1].append(item)
                else:
                    out.append((k, [item]))
            return (Iter([(k, Iter(g)) for k, g in out]),)
        if (ext in ('staticmethod',) or (isinstance(n.func, ast.Name) and n.func.id == 'staticmethod' and 'staticmethod' not in s.env)) and len(args) == 1 and not kwargs:
            return (args[0],)                  # staticmethod(f) in a class body: reached through an instance it is f itself
        if (ext in ('property',) or (isinstance(n.func, ast.Name) and n.func.id == 'property' and 'property' not in s.env)) and len(args) <= 3 \
           and set(kwargs) <= {'fget', 'fset', 'fdel', 'doc'}:
            vals = list(args) + [None] * (3 - len(args))
            return (PropertyVal(kwargs.get('fget', vals[0]), kwargs.get('fset', vals[1]), kwargs.get('fdel', vals[2])),)
        if ext in ('collections.deque', 'deque') and len(args) <= 1 and set(kwargs) <= {'maxlen'}:
            items = self._seq_in(args[0], s) if args else []
            if items is None:
                self.imprecise.append('deque(...) over items that are not determined (line %s)' % n.lineno)
                return (TOP,)
            ml = kwargs.get('maxlen')
            if ml is not None and not isinstance(ml, int):
                return (TOP,)
            d_ = DequeList(list(items) if ml is None else (list(items)[-ml:] if ml else []))
            d_.maxlen = ml
            return (d_,)
        if ext in ('collections.namedtuple', 'namedtuple') and len(args) >= 2 and isinstance(args[0], str) and _plain(args[1]) and all(_plain(v) for v in kwargs.values()):
            import collections as _coll
            try:
                return (_coll.namedtuple(args[0], args[1], **kwargs),)
            except Exception:
                return (TOP,)
        if ext in ('contextlib.suppress', 'suppress') and not kwargs:
            names = []
            for a in args:
                nm = a.__name__ if isinstance(a, type) else (a.name.split('.')[-1] if isinstance(a, M.External) else getattr(a, 'name', None))
                if not isinstance(nm, str):
                    return (TOP,)
                names.append(nm)
            return (Obj('suppress', {'__suppress': names}),)
        if ext is not None and ext.startswith('operator.') and ext.split('.', 1)[1] in ('lt', 'le', 'gt', 'ge', 'eq', 'ne', 'is_', 'is_not', 'contains', 'getitem', 'not_', 'truth') \
           and not kwargs:
            import operator as _op
            r = self.apply_value(getattr(_op, ext.split('.', 1)[1]), list(args), {}, s, n.lineno)
            if r is not None:
                return r
        # tuples made by a namedtuple class of the analysed code, called like a constructor
        if isinstance(fval, type) and issubclass(fval, tuple) and hasattr(fval, '_fields'):
            try:
                return (fval(*args, **kwargs),)
            except TypeError:
                if self.precise_exc:
                    s.env['__exc'] = 'TypeError'
                return (TOP,)
        # builtins that take a function
        if isinstance(n.func, ast.Name) and n.func.id not in s.env:
            nm = n.func.id
            if nm in ('sorted', 'max', 'min') and 'key' in kwargs and args and set(kwargs) <= {'key', 'reverse', 'default'}:
                seq = self._seq_in(args[0], s) if len(args) == 1 else list(args)
                if seq is None:
                    return (TOP,)
                keyed = []
                for item in seq:
                    r = self.apply_value(kwargs['key'], [item], {}, s, n.lineno)
                    if r is None or not is_concrete(r[0]) or isinstance(r[0], Obj):
                        return (TOP,)
                    keyed.append((r[0], item))
                try:
                    if nm == 'sorted':
                        order = sorted(range(len(keyed)), key=lambda i: keyed[i][0], reverse=bool(kwargs.get('reverse', False)))
                        return ([keyed[i][1] for i in order],)
                    if not keyed:
                        if 'default' in kwargs:
                            return (kwargs['default'],)
                        if self.precise_exc:
                            s.env['__exc'] = 'ValueError'
                        return (TOP,)
                    pick = (max if nm == 'max' else min)(range(len(keyed)), key=lambda i: keyed[i][0])
                    return (keyed[pick][1],)
                except TypeError:
                    return (TOP,)
            if nm in ('any', 'all') and len(args) == 1 and not kwargs and isinstance(args[0], (list, tuple, Iter)):
                seq = self._seq_in(args[0], s)
                if seq is not None:
                    for item in seq:
                        t = self.truth_in(item, s)
                        if t is None:
                            return (TOP,)
                        if t == (nm == 'any'):
                            return (nm == 'any',)
                    return (nm == 'all',)
            if nm == 'dict' and len(args) == 1 and isinstance(args[0], (list, tuple, Iter)):
                seq = self._seq_in(args[0], s)
                if seq is not None and all(isinstance(x, (list, tuple)) and len(x) == 2 for x in seq):
                    try:
                        d = dict((k, v) for k, v in seq)
                        d.update(kwargs)
                        return (d,)
                    except TypeError:
                        return (TOP,)
            if nm == 'callable' and len(args) == 1:
                v = args[0]
                if isinstance(v, (Partial, OpCall, M.FunctionInfo, M.ClassInfo)) or (isinstance(v, Sym) and (v.label.startswith('func:') or v.label.startswith('boundmethod:'))):
                    return (True,)
                if _plain(v):
                    return (False,)
        if isinstance(fval, M.FunctionInfo) and (not isinstance(n.func, ast.Name) or n.func.id in s.env or isinstance(self.scope, M.ClassInfo)) \
           and self.inline_depth > 0:
            r = self._call_function_info(fval, list(args), kwargs, s, n.lineno)
            if r is not None:
                return r
        if isinstance(fval, Sym) and fval.label.startswith('method:') and not isinstance(n.func, (ast.Name, ast.Attribute)) and self.inline_depth > 0 \
           and fval.label[7:].isidentifier():
            # one of our own methods taken as a value (a dispatch table of self.x entries): the call self.x(...)
            vals = {}
            for i, a in enumerate(args):
                vals['__x%d' % i] = a
            for k, v in kwargs.items():
                vals['__k_' + k] = v
            names = self._with_temps(vals, s)
            call = ast.Call(func=ast.Attribute(value=ast.Name(id='self', ctx=ast.Load()), attr=fval.label[7:], ctx=ast.Load()),
                            args=[ast.Name(id=names['__x%d' % i], ctx=ast.Load()) for i in range(len(args))],
                            keywords=[ast.keyword(arg=k, value=ast.Name(id=names['__k_' + k], ctx=ast.Load())) for k in kwargs])
            for x in ast.walk(call):
                x.lineno, x.col_offset, x.end_lineno, x.end_col_offset = n.lineno, 0, n.lineno, 0
            try:
                res = self._inline_single(call, s)
            finally:
                for nm_ in names.values():
                    s.env.pop(nm_, None)
            if res is not None:
                return res
            IMPRECISION.append('the call of %s through a table could not be interpreted (line %s)' % (fval.label, n.lineno))
            self.imprecise.append('the call of %s through a table could not be interpreted (line %s)' % (fval.label, n.lineno))
            return (TOP,)
        inst_attr = False
        if isinstance(fval, Sym) and fval.label.startswith('boundmethod:') and isinstance(n.func, ast.Attribute) and isinstance(n.func.value, (ast.Name, ast.Attribute)):
            holder = self.ev(n.func.value, s)
            inst_attr = (isinstance(holder, Obj) and holder.attrs.get(n.func.attr) is fval) \
                or (isinstance(holder, M.ClassInfo) and fval.attrs.get('recv') is holder)      # self.keys = top.keys ; self.keys()  /  Class.classmethod()
        if isinstance(fval, Sym) and fval.label.startswith('boundmethod:') and (not isinstance(n.func, ast.Attribute) or inst_attr):
            r = self.apply_value(fval, list(args), kwargs, s, n.lineno)
            if r is not None:
                return r
        if isinstance(fval, Sym) and fval.label.startswith('func:') and isinstance(fval.attrs.get('node'), ast.FunctionDef) \
           and not isinstance(n.func, ast.Name) and not kwargs and self.inline_depth > 0:
            r = self.call_value(fval, list(args), s, n.lineno)        # a lambda / nested function taken from a table
            if r is not None:
                return r
        if isinstance(fval, Obj) and isinstance(fval.cls, M.ClassInfo) and self.model is not None and self.inline_depth > 0 \
           and self.model.find_method(fval.cls, '__call__') is not None:
            # an instance of a class with __call__, called: that method on the object
            names = self._with_temps({'__obj': fval}, s)
            vals = {'__x%d' % i: a for i, a in enumerate(args)}
            vals.update({'__k_' + k: v for k, v in kwargs.items()})
            names.update(self._with_temps(vals, s))
            call = ast.Call(func=ast.Attribute(value=ast.Name(id=names['__obj'], ctx=ast.Load()), attr='__call__', ctx=ast.Load()),
                            args=[ast.Name(id=names['__x%d' % i], ctx=ast.Load()) for i in range(len(args))],
                            keywords=[ast.keyword(arg=k, value=ast.Name(id=names['__k_' + k], ctx=ast.Load())) for k in kwargs])
            for x in ast.walk(call):
                x.lineno, x.col_offset, x.end_lineno, x.end_col_offset = n.lineno, 0, n.lineno, 0
            try:
                res = self._inline_single(call, s)
            finally:
                for nm_ in names.values():
                    s.env.pop(nm_, None)
            if res is not None:
                return res
            self.imprecise.append('the call of the object %s could not be interpreted (line %s)' % (fval.label, n.lineno))
            return (TOP,)
        if isinstance(fval, Sym) and fval.label.startswith('extfunc:'):
            # a scripted function of the scenario (source.read, tex.readArgument) reached through a value: answered by the hooks under its own name
            r = self.h.call(self, n, fval.label[8:], list(args), dict(kwargs), s)
            if r is not None:
                return (None if r is NONE else r,)
            self.imprecise.append('the scripted function %s gave no answer (line %s)' % (fval.label[8:], n.lineno))
            return (TOP,)
        if isinstance(fval, type) and issubclass(fval, tuple) and hasattr(fval, '_fields'):
            try:
                return (fval(*args, **kwargs),)          # an instance of a namedtuple class made by the analysed code
            except TypeError:
                if self.precise_exc:
                    s.env['__exc'] = 'TypeError'
                return (TOP,)
        # a callable value held in a variable, an attribute or produced by an expression
        if isinstance(fval, (Partial, OpCall)) or (callable(fval) and not isinstance(fval, (type, M.ClassInfo, M.FunctionInfo, M.External, Sym, Obj))
                                                     and getattr(fval, '__module__', None) in ('builtins', 'operator', '_operator', None)
                                                     and not isinstance(n.func, ast.Name)):
            r = self.apply_value(fval, list(args), kwargs, s, n.lineno)
            if r is not None:
                return r
            self.imprecise.append('the call of the callable value %s could not be interpreted: its effect is lost (line %s)' % (_text(n.func)[:40], n.lineno))
            return (TOP,)
        if isinstance(fval, (Partial, OpCall)):
            self.imprecise.append('the call of the callable value %s could not be interpreted: its effect is lost (line %s)' % (_text(n.func)[:40], n.lineno))
            return (TOP,)
        if isinstance(n.func, ast.Name) and isinstance(s.env.get(n.func.id), (Partial, OpCall)):
            r = self.apply_value(s.env[n.func.id], list(args), kwargs, s, n.lineno)
            return r if r is not None else (TOP,)
        return None

    def _call_self_method(self, name, args, kwargs, s, lineno):
        """self.<name>(args): one of our own methods taken as a value and called later.  (result,) or None."""
        vals = {}
        for i, a in enumerate(args):
            vals['__x%d' % i] = a
        for k, v in kwargs.items():
            vals['__k_' + k] = v
        names = self._with_temps(vals, s)
        call = ast.Call(func=ast.Attribute(value=ast.Name(id='self', ctx=ast.Load()), attr=name, ctx=ast.Load()),
                        args=[ast.Name(id=names['__x%d' % i], ctx=ast.Load()) for i in range(len(args))],
                        keywords=[ast.keyword(arg=k, value=ast.Name(id=names['__k_' + k], ctx=ast.Load())) for k in kwargs])
        for x in ast.walk(call):
            x.lineno, x.col_offset, x.end_lineno, x.end_col_offset = lineno, 0, lineno, 0
        try:
            r = self._inline_single(call, s)
            if r is None:
                v = self.ev(call, s)           # not interpreted in place (a public method, or one the scenario answers itself)
                r = None if v is TOP else (v,)
            return r
        finally:
            for nm_ in names.values():
                s.env.pop(nm_, None)

    def apply_value(self, fval, args, kwargs, s, lineno=0):
        """Call a callable *value* with evaluated arguments.  Returns (result,) or None when the call cannot be decided."""
        if isinstance(fval, Sym) and fval.label.startswith('method:') and fval.label[7:].isidentifier() and self.inline_depth > 0:
            return self._call_self_method(fval.label[7:], list(args), dict(kwargs), s, lineno)
        if isinstance(fval, Sym) and fval.label.startswith('extfunc:'):
            node = ast.Call(func=ast.Name(id='__extfunc', ctx=ast.Load()), args=[], keywords=[])
            for x in ast.walk(node):
                x.lineno, x.col_offset, x.end_lineno, x.end_col_offset = lineno, 0, lineno, 0
            r = self.h.call(self, node, fval.label[8:], list(args), dict(kwargs), s)
            return None if r is None else (None if r is NONE else r,)
        if isinstance(fval, M.External):
            import builtins as _b
            if '.' not in fval.name and callable(getattr(_b, fval.name, None)) and not isinstance(getattr(_b, fval.name), type):
                fval = getattr(_b, fval.name)             # a builtin function taken as a value
            else:
                # a library function held as a value (map(glob.glob, ...)): the scenario may answer it under its dotted name
                node = ast.Call(func=ast.Name(id='__external', ctx=ast.Load()), args=[], keywords=[])
                for x in ast.walk(node):
                    x.lineno, x.col_offset, x.end_lineno, x.end_col_offset = lineno, 0, lineno, 0
                r0 = self.h.call(self, node, fval.name, list(args), dict(kwargs), s)
                if r0 is not None:
                    return (None if r0 is NONE else r0,)
                r = self._call_via_temp(fval, list(args), kwargs, s, lineno)
                return None if r[0] is TOP else r
        if isinstance(fval, Partial):
            kw = dict(fval.kwargs)
            kw.update(kwargs)
            return self.apply_value(fval.func, list(fval.args) + list(args), kw, s, lineno)
        if isinstance(fval, OpCall):
            if len(args) != 1 or kwargs:
                return None
            o = args[0]
            if fval.kind == 'methodcaller':
                return self._call_method_value(o, fval.names[0], list(fval.args), dict(fval.kwargs), s, lineno)
            vals = []
            for nm in fval.names:
                if fval.kind == 'attrgetter':
                    v = o
                    for part in str(nm).split('.'):
                        r = self._getattr_value(v, part, s, lineno)
                        if r is None:
                            return None
                        v = r[0]
                else:
                    r = self._getitem_value(o, nm, s, lineno)
                    if r is None:
                        return None
                    v = r[0]
                vals.append(v)
            return (vals[0] if len(vals) == 1 else tuple(vals),)
        if isinstance(fval, Sym) and isinstance(fval.attrs.get('node'), ast.FunctionDef) and not kwargs:
            return self.call_value(fval, list(args), s, lineno)
        if isinstance(fval, Sym) and fval.label.startswith('boundmethod:') and isinstance(fval.attrs.get('fn'), M.FunctionInfo):
            return self._call_function_info(fval.attrs['fn'], [fval.attrs['recv']] + list(args), kwargs, s, lineno)
        if isinstance(fval, M.FunctionInfo):
            return self._call_function_info(fval, list(args), kwargs, s, lineno)
        if isinstance(fval, tuple) and len(fval) == 3 and fval[0] == 'boundmethod':
            self._pending_exc = None
            r = self._builtin_method(fval[1], fval[2], list(args), dict(kwargs))
            if self._pending_exc and self.precise_exc:
                s.env['__exc'] = self._pending_exc
            return (r,)
        if isinstance(fval, M.ClassInfo) or (isinstance(fval, type) and fval in (int, float, str, bool, list, dict, tuple, set)):
            return self._call_via_temp(fval, list(args), kwargs, s, lineno)
        if callable(fval) and getattr(fval, '__objclass__', None) is dict and args and isinstance(args[0], Obj) \
           and fval.__name__ in ('get', '__getitem__', '__contains__', 'keys', 'values', 'items', '__len__', 'setdefault', 'pop', '__setitem__', '__delitem__', 'update', 'clear'):
            # dict.get(obj, key) on an instance of a dict subclass: the entries the object itself holds
            back = args[0].attrs.get('__dict') if isinstance(args[0].attrs.get('__dict'), dict) else args[0].attrs.get('__items')
            if isinstance(back, dict):
                self._pending_exc = None
                r = self._builtin_method(back, fval.__name__, list(args[1:]), dict(kwargs))
                if fval.__name__ == '__setitem__' and len(args) == 3 and is_concrete(args[1]):
                    back[args[1]] = args[2]
                    r = None
                if self._pending_exc and self.precise_exc:
                    s.env['__exc'] = self._pending_exc
                return (r,)
        if callable(fval) and getattr(fval, '__module__', None) in ('builtins', 'operator', '_operator', 'functools', None) and not isinstance(fval, type):
            # a builtin / operator function or an unbound method of a builtin type, held as a value (str.strip, operator.lt, len)
            args2 = [str(a) if isinstance(a, TextObj) else a for a in args]
            if any(isinstance(a, Iter) for a in args2):
                # an iterator handed to a library function: it is consumed there
                conv = []
                for a in args2:
                    if isinstance(a, Iter):
                        seq = self._seq_of(a)
                        if seq is None or not all(_plain(x) for x in seq):
                            return None
                        a = seq
                    conv.append(a)
                args2 = conv
            if all(is_concrete(a) and not isinstance(a, (Obj, M._StringLetters, Iter)) for a in args2) and all(_plain(v) for v in kwargs.values()):
                try:
                    return (fval(*args2, **kwargs),)
                except Exception as e:
                    if self.precise_exc:
                        s.env['__exc'] = type(e).__name__
                    return (TOP,)
            if getattr(fval, '__name__', '') in ('eq', 'ne', 'is_', 'is_not', 'lt', 'gt', 'le', 'ge', 'contains') and len(args) == 2 and not kwargs:
                op = {'eq': ast.Eq, 'ne': ast.NotEq, 'is_': ast.Is, 'is_not': ast.IsNot, 'lt': ast.Lt, 'gt': ast.Gt, 'le': ast.LtE, 'ge': ast.GtE,
                      'contains': ast.In}[fval.__name__]()
                a, b = (args[1], args[0]) if fval.__name__ == 'contains' else (args[0], args[1])
                r = self.compare(op, a, b)
                return None if r is None else (r,)
            if getattr(fval, '__name__', '') in ('getitem',) and len(args) == 2:
                return self._getitem_value(args[0], args[1], s, lineno)
            import builtins as _b
            nm = getattr(fval, '__name__', '')
            if getattr(_b, nm, None) is fval and nm not in s.env:
                # a builtin function held as a value (partial(setattr, obj, name, v), map(len, ...)): the call of that name
                names = self._with_temps({'__x%d' % i: a for i, a in enumerate(args)}, s)
                knames = self._with_temps({'__k_' + k: v for k, v in kwargs.items()}, s)
                call = ast.Call(func=ast.Name(id=nm, ctx=ast.Load()), args=[ast.Name(id=names['__x%d' % i], ctx=ast.Load()) for i in range(len(args))],
                                keywords=[ast.keyword(arg=k, value=ast.Name(id=knames['__k_' + k], ctx=ast.Load())) for k in kwargs])
                for x in ast.walk(call):
                    x.lineno, x.col_offset, x.end_lineno, x.end_col_offset = lineno, 0, lineno, 0
                try:
                    v = self.ev(call, s)
                finally:
                    for n_ in list(names.values()) + list(knames.values()):
                        s.env.pop(n_, None)
                if v is TOP and nm in ('setattr', 'delattr', 'setitem'):
                    return None
                return (v,)
            return None
        return None

    def _with_temps(self, values, s):
        d = len(self._inline_stack)
        names = {}
        for k, v in values.items():
            nm = '%s@%d' % (k, d)
            s.env[nm] = v
            names[k] = nm
        return names

    def _call_via_temp(self, fval, args, kwargs, s, lineno):
        vals = {'__f': fval}
        for i, a in enumerate(args):
            vals['__x%d' % i] = a
        for k, v in kwargs.items():
            vals['__k_' + k] = v
        names = self._with_temps(vals, s)
        call = ast.Call(func=ast.Name(id=names['__f'], ctx=ast.Load()), args=[ast.Name(id=names['__x%d' % i], ctx=ast.Load()) for i in range(len(args))],
                        keywords=[ast.keyword(arg=k, value=ast.Name(id=names['__k_' + k], ctx=ast.Load())) for k in kwargs])
        for x in ast.walk(call):
            x.lineno, x.col_offset, x.end_lineno, x.end_col_offset = lineno, 0, lineno, 0
        try:
            return (self.ev(call, s),)
        finally:
            for nm in names.values():
                s.env.pop(nm, None)

    def _call_via_temp_stmt(self, src, values, s, lineno):
        names = self._with_temps(values, s)
        for k, nm in names.items():
            src = src.replace(k, '__tmp_' + str(abs(hash(nm)) % 10 ** 8) + '_')       # placeholder names must be identifiers
        return None

    def _call_function_info(self, info, args, kwargs, s, lineno):
        vals = {}
        for i, a in enumerate(args):
            vals['__x%d' % i] = a
        for k, v in kwargs.items():
            vals['__k_' + k] = v
        names = self._with_temps(vals, s)
        table = self.__dict__.setdefault('_forced_table', {})
        fid = '__forced_%d' % id(info)
        table[fid] = info                 # (the name says which function is meant: nested calls of this kind do not disturb each other)
        call = ast.Call(func=ast.Name(id=fid, ctx=ast.Load()), args=[ast.Name(id=names['__x%d' % i], ctx=ast.Load()) for i in range(len(args))],
                        keywords=[ast.keyword(arg=k, value=ast.Name(id=names['__k_' + k], ctx=ast.Load())) for k in kwargs])
        for x in ast.walk(call):
            x.lineno, x.col_offset, x.end_lineno, x.end_col_offset = lineno, 0, lineno, 0
        try:
            return self._inline_single(call, s)
        finally:
            for nm in names.values():
                s.env.pop(nm, None)

    def _getattr_value(self, o, name, s, lineno):
        names = self._with_temps({'__o': o}, s)
        e = ast.Attribute(value=ast.Name(id=names['__o'], ctx=ast.Load()), attr=name, ctx=ast.Load())
        for x in ast.walk(e):
            x.lineno, x.col_offset, x.end_lineno, x.end_col_offset = lineno, 0, lineno, 0
        try:
            return (self.ev(e, s),)
        finally:
            s.env.pop(names['__o'], None)

    def _getitem_value(self, o, key, s, lineno):
        names = self._with_temps({'__o': o, '__i': key}, s)
        e = ast.Subscript(value=ast.Name(id=names['__o'], ctx=ast.Load()), slice=ast.Name(id=names['__i'], ctx=ast.Load()), ctx=ast.Load())
        for x in ast.walk(e):
            x.lineno, x.col_offset, x.end_lineno, x.end_col_offset = lineno, 0, lineno, 0
        try:
            return (self.ev(e, s),)
        finally:
            for nm in names.values():
                s.env.pop(nm, None)

    def _call_method_value(self, o, meth, args, kwargs, s, lineno):
        vals = {'__o': o}
        for i, a in enumerate(args):
            vals['__x%d' % i] = a
        for k, v in kwargs.items():
            vals['__k_' + k] = v
        names = self._with_temps(vals, s)
        call = ast.Call(func=ast.Attribute(value=ast.Name(id=names['__o'], ctx=ast.Load()), attr=meth, ctx=ast.Load()),
                        args=[ast.Name(id=names['__x%d' % i], ctx=ast.Load()) for i in range(len(args))],
                        keywords=[ast.keyword(arg=k, value=ast.Name(id=names['__k_' + k], ctx=ast.Load())) for k in kwargs])
        for x in ast.walk(call):
            x.lineno, x.col_offset, x.end_lineno, x.end_col_offset = lineno, 0, lineno, 0
        try:
            return (self.ev(call, s),)
        finally:
            for nm in names.values():
                s.env.pop(nm, None)

    def _comprehend(self, n, s, elt):
        """Evaluate a comprehension over known iterables (no forks inside: unknown tests give up)."""
        out = []
        saved = {}

        def bind(t, v):
            for nm in [x.id for x in ast.walk(t) if isinstance(x, ast.Name)]:
                if nm not in saved:
                    saved[nm] = s.env.get(nm, _MISSING)
            self.assign(t, v, s, n, quiet=True)

        def rec(i):
            if i == len(n.generators):
                out.append(elt(s))
                return True
            g = n.generators[i]
            it = self.materialize(self.ev(g.iter, s), s)
            if isinstance(it, (LazyGen, GenObj)):
                it = self.lazy_drain(it, s)
                if it is None:
                    return False
            if isinstance(it, Iter) and not isinstance(it, CountIter):
                src_iter = it
                it = it.items[it.pos:]
                if i == 0:
                    src_iter.pos = len(src_iter.items)         # the comprehension consumes the iterator
            if isinstance(it, dict):
                it = list(it.keys())
            if isinstance(it, range):
                it = list(it)
            if not isinstance(it, (list, tuple, str)) or isinstance(it, M._StringLetters) or len(it) > 256:
                return False
            for v in it:
                bind(g.target, v)
                ok = True
                for c in g.ifs:
                    t = self.truth_in(self.ev(c, s), s)
                    if t is None:
                        return False
                    if not t:
                        ok = False
                        break
                if ok and not rec(i + 1):
                    return False
            return True
        try:
            good = rec(0)
        finally:
            for nm, v in saved.items():
                if v is _MISSING:
                    s.env.pop(nm, None)
                else:
                    s.env[nm] = v
        return out if good else None

    def ev_ListComp(self, n, s):
        r = self._comprehend(n, s, lambda st: self.ev(n.elt, st))
        if r is None:
            for g in n.generators:
                self.ev(g.iter, s)
            return TOP
        return r

    def ev_SetComp(self, n, s):
        r = self.ev_ListComp(n, s)
        if isinstance(r, list) and is_concrete(r):
            try:
                return set(r)
            except TypeError:
                return TOP
        return TOP

    def ev_GeneratorExp(self, n, s):
        if self.heap and len(n.generators) == 1 and not n.generators[0].is_async:
            g = n.generators[0]
            src = self.ev(g.iter, s) if isinstance(g.iter, (ast.Name, ast.Attribute)) or self.lazy_generators else None
            if src is not None and not isinstance(src, Iter) and not isinstance(g.iter, (ast.Name, ast.Attribute)):
                # the first iterable was evaluated (a call, possibly with effects): keep its value for the eager path below
                key = '__genexp_src@%d' % len(self._inline_stack)
                s.env[key] = src
                n2 = ast.GeneratorExp(elt=n.elt, generators=[ast.comprehension(target=g.target, iter=ast.Name(id=key, ctx=ast.Load()), ifs=g.ifs, is_async=0)])
                ast.copy_location(n2, n)
                ast.fix_missing_locations(n2)
                try:
                    r = self.ev_ListComp(n2, s)
                finally:
                    s.env.pop(key, None)
                return Iter(r) if isinstance(r, list) else TOP
            if isinstance(src, Iter) and not getattr(src, 'lazy_mismatch', None):
                # over a stateful iterator: lazy (the first iterable is evaluated now, as in Python)
                targets = {x.id for x in ast.walk(g.target) if isinstance(x, ast.Name)}
                free = {x.id for x in ast.walk(n) if isinstance(x, ast.Name) and isinstance(x.ctx, ast.Load)} - targets
                closure = {nm: s.env[nm] for nm in free if nm in s.env}
                return LazyGen(n, src, closure, self.scope)
        r = self.ev_ListComp(n, s)
        return Iter(r) if isinstance(r, list) else TOP

    def lazy_take(self, gen, s):
        """Next item of a lazy iterator (generator expression, takewhile, filter, map, ... over a stateful source):
        STOP, the item (_NONE_ITEM for None), or None when a condition is not determined."""
        n = gen.node
        if gen.kind == 'callsentinel':
            if gen.state:
                return STOP
            r = self.apply_value(gen.fn, [], {}, s, getattr(n, 'lineno', 0))       # iter(callable, sentinel): call until the sentinel comes
            if r is None or r[0] is TOP or (self.precise_exc and '__exc' in s.env):
                if r is None or r[0] is TOP:
                    self.unknown_branches.append('iter(callable, sentinel): the value of the call is not determined (line %s)' % getattr(n, 'lineno', '?'))
                return None if '__exc' not in s.env else STOP
            eq = self.compare(ast.Eq(), r[0], gen.source)
            if eq is None:
                self.unknown_branches.append('iter(callable, sentinel): whether the sentinel was reached is not determined (line %s)' % getattr(n, 'lineno', '?'))
                return None
            if eq:
                gen.state = 1
                return STOP
            return _NONE_ITEM if r[0] is None else r[0]
        if gen.kind == 'zip':
            out = []
            for src in gen.source:           # one item from each source, in order; the first that is exhausted ends the zip
                item = self._take(src, s)
                if item is STOP or item is None:
                    return item
                out.append(None if item is _NONE_ITEM else item)
            return tuple(out)
        if gen.kind != 'genexp':
            if gen.kind == 'takewhile' and gen.state:
                return STOP
            while True:
                item = self._take(gen.source, s)
                if item is STOP or item is None:
                    return item
                val = None if item is _NONE_ITEM else item
                if gen.kind == 'enumerate':
                    gen.state += 1
                    return (gen.state - 1, val)
                r = self.apply_value(gen.fn, [val], {}, s, getattr(n, 'lineno', 0)) if gen.fn is not None else (val,)
                if r is None:
                    self.unknown_branches.append('%s over a lazy iterator: the function could not be applied (line %s)' % (gen.kind, getattr(n, 'lineno', '?')))
                    return None
                if gen.kind == 'map':
                    return _NONE_ITEM if r[0] is None else r[0]
                t = self.truth_in(r[0], s)
                if t is None:
                    self.unknown_branches.append('%s over a lazy iterator: test not determined (line %s)' % (gen.kind, getattr(n, 'lineno', '?')))
                    return None
                if gen.kind == 'takewhile':
                    if t:
                        return item
                    gen.state = 1
                    return STOP
                if gen.kind == 'dropwhile':
                    if gen.state or not t:
                        gen.state = 1
                        return item
                    continue
                if (gen.kind == 'filter') == bool(t):
                    return item
        g = n.generators[0]
        names = {x.id for x in ast.walk(g.target) if isinstance(x, ast.Name)} | set(gen.closure)
        saved = {nm: s.env.get(nm, _MISSING) for nm in names}
        saved_scope, saved_cache = self.scope, getattr(self, '_locals_cache', None)
        self.scope, self._locals_cache = gen.scope, None
        try:
            s.env.update(gen.closure)
            while True:
                item = self._take(gen.source, s)
                if item is STOP or item is None:
                    return item
                self.assign(g.target, None if item is _NONE_ITEM else item, s, n, quiet=True)
                ok = True
                for c in g.ifs:
                    t = self.truth_in(self.ev(c, s), s)
                    if t is None:
                        self.unknown_branches.append('%s (line %s)' % (_text(c)[:80], n.lineno))
                        return None
                    if not t:
                        ok = False
                        break
                if ok:
                    v = self.ev(n.elt, s)
                    return _NONE_ITEM if v is None else v
        finally:
            self.scope, self._locals_cache = saved_scope, saved_cache
            walrus = {x.target.id for x in ast.walk(n) if isinstance(x, ast.NamedExpr) and isinstance(x.target, ast.Name)}
            for nm, v in saved.items():
                if nm in walrus:
                    continue               # (an assignment expression binds in the enclosing scope)
                if v is _MISSING:
                    s.env.pop(nm, None)
                else:
                    s.env[nm] = v

    def lazy_drain(self, gen, s):
        """All remaining items of a lazy iterator as a plain iterator (None when not determined)."""
        out = self._drain(gen, s)
        return None if out is None else Iter(out)

    def ev_DictComp(self, n, s):
        r = self._comprehend(n, s, lambda st: (self.ev(n.key, st), self.ev(n.value, st)))
        if r is None or not all(is_concrete(k) for k, v in r):
            for g in n.generators:
                self.ev(g.iter, s)
            return TOP
        try:
            return dict(r)
        except TypeError:
            return TOP

    def ev_Yield(self, n, s):
        v = self.ev(n.value, s) if n.value is not None else None
        keys = [k for k in s.env if k.startswith('__yields@')]
        if keys:
            kmax = max(keys, key=lambda k: int(k.split('@')[1]))
            d = int(kmax.split('@')[1])
            tok = s.env.get('__fuse@%d' % d)
            if tok is not None:
                self._fused_yield(v, s, d, tok)
                return None
            s.env[kmax].append(v)
            snaps = s.env.get('__ysnap@%d' % d)
            if isinstance(snaps, list):
                snaps.append(_shallow_sig(v))
        elif self._lazy_active:
            raise _YieldSignal(v, s, n)
        oy = getattr(self.h, 'on_yield', None)
        if oy is not None and oy(self, v, s) is STOP:
            s.env['__exc'] = 'GeneratorExit'       # the consumer stops asking: the generator is closed here
        self.emit(s, ('yield', v if (is_concrete(v) or _known(v)) else _text(n.value), n.lineno))
        return TOP

    def ev_YieldFrom(self, n, s):
        v = self.ev(n.value, s)
        self._yield_items(v, s, n)
        return TOP

    def _yield_items(self, v, s, n):
        keys = [k for k in s.env if k.startswith('__yields@')]
        if keys and self.generators:
            v = self.materialize(v, s)
            seq = self._seq_of(v)
            if seq is None:
                self.imprecise.append('yield from %s: the items are not determined (line %s)' % (_text(n.value)[:50], n.lineno))
            else:
                kmax = max(keys, key=lambda k: int(k.split('@')[1]))
                d = int(kmax.split('@')[1])
                tok = s.env.get('__fuse@%d' % d)
                for item in seq:
                    if tok is not None:
                        self._fused_yield(item, s, d, tok)
                    else:
                        s.env[kmax].append(item)
                        snaps = s.env.get('__ysnap@%d' % d)
                        if isinstance(snaps, list):
                            snaps.append(_shallow_sig(item))
        self.emit(s, ('yieldfrom', _text(n.value), n.lineno))
        return TOP

    def _fused_yield(self, v, s, d, tok):
        """A yield of a generator that feeds a for loop: the loop body runs now, on the consumer's variables, then the generator goes on."""
        for_node, cscope, cdepth, clocals = self._fuse_table[tok]
        ckey, gkey = '__caller@%d' % d, '__gen@%d' % d
        cenv, genv = s.env.get(ckey), s.env
        if not isinstance(cenv, dict):
            raise _FuseFail()
        same_self = genv.get('self') is cenv.get('self')

        def shared(k):
            if _INTERNAL_KEY.match(k):
                return False
            if (k.startswith('self.') or k.startswith('self[')) and not same_self:
                return False
            return '.' in k or '[' in k or k.startswith('__')
        for k in [k for k in cenv if shared(k) and k not in genv]:
            del cenv[k]
        for k, val in list(genv.items()):
            if shared(k):
                cenv[k] = val                 # facts and scenario state (stream positions, logs) travel with the control flow
        cenv[gkey] = genv
        cst = State(cenv, s.trace, dict(s.assumed))
        cst.flags = s.flags
        saved = (self.scope, self._inline_stack, getattr(self, '_locals_cache', None))
        self.scope, self._inline_stack, self._locals_cache = cscope, self._inline_stack[:cdepth], clocals
        try:
            self.assign(for_node.target, v, cst, for_node, quiet=True)
            res = self.block(for_node.body, [cst])
        finally:
            self.scope, self._inline_stack, self._locals_cache = saved
        flat = [(kind, st, val) for kind, lst in res.items() for st, val in lst]
        if len(flat) != 1:
            cenv.pop(gkey, None)
            raise _FuseFail()
        kind, st2, val = flat[0]
        g2 = st2.env.pop(gkey, None)
        if g2 is not genv:
            raise _FuseFail()                 # the state was copied under way: the generator's objects are no longer the consumer's
        if kind in ('fall', 'continue'):
            for k in [k for k in genv if shared(k) and k not in st2.env]:
                del genv[k]
            for k, val in list(st2.env.items()):
                if shared(k):
                    genv[k] = val
            genv[ckey] = st2.env
            for k2, e2 in list(genv.items()):
                if k2.startswith('__caller@') and k2 != ckey and isinstance(e2, dict) and ckey in e2:
                    e2[ckey] = st2.env
            s.trace, s.flags, s.assumed = st2.trace, st2.flags, st2.assumed
            return
        raise _FuseExit(kind, st2, val)

    # -- lazy generator objects ------------------------------------------------------
    def _as_iterator(self, v, s):
        """v as something _take() understands: Iter / GenObj / LazyGen; None when not determined."""
        if isinstance(v, Iter):
            return v
        v = self.materialize(v, s) if isinstance(v, Obj) else v
        if isinstance(v, Iter):
            return v
        if isinstance(v, Sym) and type(self.h).take is not Hooks.take:
            return ScriptedIter(v)           # an iterator that the scenario scripts (a token stream): items come from hooks.take
        seq = self._seq_of(v)
        return Iter(seq) if seq is not None else None

    def _take(self, it, s):
        """Next item of any iterator value: the item, STOP, or None when it is not determined."""
        if isinstance(it, GenObj):
            return self.gen_next(it, s)
        if isinstance(it, LazyGen):
            return self.lazy_take(it, s)
        if isinstance(it, ScriptedIter):
            item = self.h.take(self, it.value, s)
            if item is NotImplemented:
                return None
            return _NONE_ITEM if item is None else item
        item = it.take()
        return _NONE_ITEM if item is None else item

    def _drain(self, it, s, limit=4096):
        """All remaining items of an iterator value as a list; None when not determined (or endless)."""
        if isinstance(it, Iter) and not isinstance(it, (GenObj, LazyGen, CountIter)):
            out = list(it.items[it.pos:])
            it.pos = len(it.items)
            return out
        if isinstance(it, CountIter):
            return None
        out = []
        for _ in range(limit):
            item = self._take(it, s)
            if item is STOP:
                return out
            if item is None:
                return None
            out.append(None if item is _NONE_ITEM else item)
        return None

    def _sync_shared(self, src, dst, same_self):
        def shared(k):
            if _INTERNAL_KEY.match(k) or k.startswith('__cls:') and False:
                return False
            if (k.startswith('self.') or k.startswith('self[')) and not same_self:
                return False
            return k.startswith('__')
        for k in [k for k in dst if shared(k) and k not in src]:
            del dst[k]
        for k, val in list(src.items()):
            if shared(k):
                dst[k] = val

    def gen_next(self, gen, s, throw=None):
        """Resume the generator object `gen` until its next yield (throw: with that exception raised at the yield it is suspended
        at).  The item, STOP, or None when the run is not deterministic."""
        if gen.pc == 'done' or (throw is not None and gen.pc is None):
            gen.pc = 'done'
            if throw is not None:
                s.env['__exc'] = throw
            return STOP
        self._throw_at = throw
        if len(self._lazy_active) > 12:
            raise AnalysisError('generators nested too deeply (%s)' % gen.fname)
        same_self = gen.env.get('self') is s.env.get('self')
        self._sync_shared(s.env, gen.env, same_self)
        nonlocals = self._nonlocals_of(gen.node)
        cenv_ = gen.env.get('__closure@%s_%d' % (gen.node.name, gen.node.lineno)) if nonlocals else None
        if isinstance(cenv_, dict):
            for nm in nonlocals:
                if nm in cenv_:
                    gen.env[nm] = cenv_[nm]
        cs = State(gen.env, s.trace, dict(s.assumed))
        cs.flags = s.flags
        saved = (self.scope, getattr(self, '_locals_cache', None))
        self.scope, self._locals_cache = gen.scope, None
        self._inline_stack.append(gen.node)
        self._lazy_active.append(gen)
        item, final = None, None
        try:
            try:
                if gen.pc is None:
                    outs = self.block(gen.node.body, [cs])
                else:
                    outs = self._resume_level(self._yield_chain(gen.node, gen.pc), 0, cs)
                flat = [(kind, st, v) for kind, lst in outs.items() for st, v in lst]
                if len(flat) != 1:
                    self.unknown_branches.append('the generator %s does not run deterministically (%d outcomes)' % (gen.fname, len(flat)))
                    gen.pc = 'done'
                    return None
                kind, final, v = flat[0]
                gen.pc = 'done'
                gen.retval = v if kind == 'return' else None
                item = STOP
                if kind == 'raise' or '__exc' in final.env:
                    final.env.setdefault('__exc', v if isinstance(v, str) else 'Exception')
            except _YieldSignal as y:
                final = y.state
                gen.pc = y.node
                item = _NONE_ITEM if y.value is None else y.value
        finally:
            self._lazy_active.pop()
            self._inline_stack.pop()
            self.scope, self._locals_cache = saved
        if final.env is not gen.env:
            _rebind_closures(final.env, gen.env)
            gen.env = final.env            # (the frame's dictionary may have been replaced by an equal one; the objects are the same)
        cenv_ = gen.env.get('__closure@%s_%d' % (gen.node.name, gen.node.lineno)) if nonlocals else None
        if isinstance(cenv_, dict):
            for nm in nonlocals:
                if nm in gen.env:
                    cenv_[nm] = gen.env[nm]
        exc = final.env.pop('__exc', None)
        self._sync_shared(gen.env, s.env, same_self)
        s.trace, s.flags = final.trace, final.flags
        if exc is not None:
            s.env['__exc'] = exc
            return STOP
        return item

    def _nonlocals_of(self, fnode):
        cache = self.__dict__.setdefault('_nonlocal_cache', {})
        if id(fnode) not in cache:
            cache[id(fnode)] = (sorted({nm for x in M.walk_no_nested(fnode) if isinstance(x, ast.Nonlocal) for nm in x.names}), fnode)
        return cache[id(fnode)][0]

    def _yield_chain(self, fnode, ynode):
        """Where a yield expression sits: [(statement list, index), ...] from the function body down to its own statement."""
        cache = self.__dict__.setdefault('_chain_cache', {})
        key = (id(fnode), id(ynode))
        if key in cache:
            return cache[key][0]

        def own_exprs(st):
            if isinstance(st, (ast.If, ast.While)):
                return [st.test]
            if isinstance(st, (ast.For, ast.AsyncFor)):
                return [st.iter]
            if isinstance(st, (ast.With, ast.AsyncWith)):
                return [i.context_expr for i in st.items]
            if isinstance(st, ast.Try):
                return []
            if isinstance(st, ast.Match):
                return [st.subject] + [c.guard for c in st.cases if c.guard is not None]
            if isinstance(st, (ast.FunctionDef, ast.AsyncFunctionDef, ast.ClassDef)):
                return []
            return [st]

        def lists(st):
            out = []
            for f in ('body', 'orelse', 'finalbody'):
                v = getattr(st, f, None)
                if isinstance(v, list) and v and isinstance(v[0], ast.stmt):
                    out.append(v)
            for h in getattr(st, 'handlers', []) or []:
                out.append(h.body)
            for c in getattr(st, 'cases', []) or []:
                out.append(c.body)
            return out

        def find(stmts):
            for i, st in enumerate(stmts):
                for e in own_exprs(st):
                    if any(x is ynode for x in ast.walk(e)):
                        if not (isinstance(st, ast.Expr) and st.value is ynode) and not (isinstance(st, ast.Assign) and st.value is ynode):
                            raise AnalysisError('a yield inside a larger expression is not supported (line %s)' % getattr(ynode, 'lineno', '?'))
                        return [(stmts, i)]
                if isinstance(st, (ast.FunctionDef, ast.AsyncFunctionDef, ast.ClassDef)):
                    continue
                for sub in lists(st):
                    r = find(sub)
                    if r is not None:
                        return [(stmts, i)] + r
            return None
        chain = find(fnode.body)
        if chain is None:
            raise AnalysisError('yield at line %s not found in its function' % getattr(ynode, 'lineno', '?'))
        cache[key] = (chain, fnode, ynode)
        return chain

    def _after(self, outs, rest):
        """Continue the 'fall' states of `outs` with the statements `rest`."""
        res = {k: list(v) for k, v in outs.items() if k != 'fall'}
        falls = [st for st, _v in outs.get('fall', [])]
        if self.precise_exc:
            pend = [st for st in falls if '__exc' in st.env]
            falls = [st for st in falls if '__exc' not in st.env]
            for st in pend:
                res.setdefault('raise', []).append((st, st.env.pop('__exc')))
        if falls:
            if rest:
                for k, lst in self.block(rest, falls).items():
                    res.setdefault(k, []).extend(lst)
            else:
                res.setdefault('fall', []).extend((st, None) for st in falls)
        return res

    def _resume_level(self, chain, depth, cs):
        stmts, idx = chain[depth]
        st = stmts[idx]
        if depth == len(chain) - 1:
            if getattr(self, '_throw_at', None) is not None:
                outs = {'raise': [(cs, self._throw_at)]}          # generator.throw(): the exception is raised at the yield
                self._throw_at = None
            elif isinstance(st, (ast.Expr, ast.Assign)) and isinstance(st.value, ast.YieldFrom):
                outs = self._lazy_yield_from(st, cs)
            elif isinstance(st, ast.Assign):
                for t in st.targets:
                    self.assign(t, None, cs, st, quiet=True)      # nothing is sent into the generators of the analysed code
                outs = {'fall': [(cs, None)]}
            else:
                outs = {'fall': [(cs, None)]}
        else:
            outs = self._resume_stmt(st, chain, depth + 1, cs)
        return self._after(outs, stmts[idx + 1:])

    def _resume_stmt(self, st, chain, depth, cs):
        lst = chain[depth][0]
        if isinstance(st, (ast.If, ast.Match)):
            return self._resume_level(chain, depth, cs)
        if isinstance(st, (ast.For, ast.While)):
            inner = self._resume_level(chain, depth, cs)
            if lst is st.orelse:
                return inner
            res = {k: list(v) for k, v in inner.items() if k not in ('fall', 'continue', 'break')}
            res.setdefault('fall', []).extend(inner.get('break', []))
            again = [x[0] for x in inner.get('fall', []) + inner.get('continue', [])]
            for s2 in again:
                if self.precise_exc and '__exc' in s2.env:
                    res.setdefault('raise', []).append((s2, s2.env.pop('__exc')))
                    continue
                it = None
                if isinstance(st, ast.For):
                    it = s2.env.get('__iter@%d' % st.lineno)
                    if not isinstance(it, Iter):
                        if s2.env.get('__list@%d' % st.lineno) is not None:
                            raise AnalysisError('the loop at line %s cannot be resumed: its position is not kept in the frame' % st.lineno)
                        it = None           # items come from the scenario (hooks.iter_item keeps the position)
                for k, l2 in self._loop(st, s2, it).items():
                    res.setdefault(k, []).extend(l2)
            return res
        if isinstance(st, ast.Try):
            inner = self._resume_level(chain, depth, cs)
            in_body = lst is st.body
            in_final = lst is st.finalbody
            if in_final:
                return inner
            body_out = {k: list(v) for k, v in inner.items() if k not in ('fall', 'raise')}
            normal = [x[0] for x in inner.get('fall', [])]
            pending = list(inner.get('raise', []))
            if in_body:
                return self._try_tail(st, normal, pending, body_out)
            # resumed inside a handler or the else clause: only the finally clause is still to come
            return self._try_tail(st, normal, pending, body_out, handlers=False, orelse=False)
        if isinstance(st, (ast.With, ast.AsyncWith)):
            inner = self._resume_level(chain, depth, cs)
            return self._with_tail(st, inner)
        raise AnalysisError('a generator suspended inside a %s statement cannot be resumed' % type(st).__name__)

    def _lazy_yield_from(self, st, cs):
        """yield from X (or t = yield from X) in a lazily interpreted generator: one item per resumption; at the end t gets the
        value returned by the generator X."""
        key = '__yf@%d' % st.lineno
        if key not in cs.env:
            v = self.ev(st.value.value, cs)
            if self.precise_exc and '__exc' in cs.env:
                return {'fall': [(cs, None)]}
            it = self._as_iterator(v, cs)
            if it is None:
                self.imprecise.append('yield from %s: the items are not determined (line %s)' % (_text(st.value.value)[:50], st.lineno))
                return {'fall': [(cs, None)]}
            cs.env[key] = it
        item = self._take(cs.env[key], cs)
        if item is STOP or item is None:
            if item is None:
                self.imprecise.append('yield from %s: an item is not determined (line %s)' % (_text(st.value.value)[:50], st.lineno))
            src = cs.env.pop(key, None)
            if isinstance(st, ast.Assign) and not (self.precise_exc and '__exc' in cs.env):
                rv = src.retval if isinstance(src, GenObj) and item is STOP else (None if item is STOP else TOP)
                for t in st.targets:
                    self.assign(t, rv, cs, st, quiet=True)
            return {'fall': [(cs, None)]}
        raise _YieldSignal(None if item is _NONE_ITEM else item, cs, st.value)

    def _callee_probe(self, call, s):
        saved_recv, saved_forced = getattr(self, '_receiver', None), getattr(self, '_force_callee', None)
        try:
            probe = self._callee(self._norm_call(call, s), s)
        except AnalysisError:
            probe = None
        self._receiver, self._force_callee = saved_recv, saved_forced
        return probe is not None

    def resolve_callee(self, call, s):
        """The function of the analysed code that this call reaches (FunctionInfo), or None - for hooks that recognise a callee by
        what it is, whatever name or alias the call site uses."""
        saved_recv, saved_forced = getattr(self, '_receiver', None), getattr(self, '_force_callee', None)
        try:
            probe = self._callee(self._norm_call(call, s), s)
        except AnalysisError:
            probe = None
        self._receiver, self._force_callee = saved_recv, saved_forced
        if probe is not None and isinstance(probe[2], M.FunctionInfo):
            return probe[2]
        if isinstance(call.func, (ast.Name, ast.Attribute)):
            # a function or bound method held in a variable / attribute (disable = ParameterCommand.disable ; disable())
            try:
                v = self.ev(call.func, s.fork())
            except AnalysisError:
                v = None
            if isinstance(v, M.FunctionInfo):
                return v
            if isinstance(v, Sym) and isinstance(v.attrs.get('fn'), M.FunctionInfo):
                return v.attrs['fn']
            if isinstance(v, Partial) and isinstance(v.func, M.FunctionInfo):
                return v.func
        return None

    def _is_generator_call(self, call, s):
        saved_recv, saved_forced = getattr(self, '_receiver', None), getattr(self, '_force_callee', None)
        try:
            probe = self._callee(self._norm_call(call, s), s)
        except AnalysisError:
            probe = None
        self._receiver, self._force_callee = saved_recv, saved_forced
        return probe is not None and isinstance(probe[0], (ast.FunctionDef, ast.AsyncFunctionDef)) \
            and any(isinstance(x, (ast.Yield, ast.YieldFrom)) for x in M.walk_no_nested(probe[0]))

    def _try_fuse(self, n, s):
        """`for x in self.gen(...): body` over a generator function of the analysed code, interpreted lazily: every yield runs the
        loop body before the generator continues (the order of effects of the two is the order Python gives them).  Outcomes of the
        for statement, or None when this does not apply (then the generator is interpreted eagerly)."""
        if self.lazy_generators:
            return None               # generator objects are lazy anyway: the ordinary loop takes their items one by one
        if not (self.generators and self.heap and self.precise_exc and isinstance(n.iter, ast.Call) and self.inline_depth > 0
                and len(self._inline_stack) < self.inline_depth and self.model is not None):
            return None
        call = self._norm_call(n.iter, s)
        if not self._is_generator_call(call, s):
            return None
        table = self.__dict__.setdefault('_fuse_table', {})
        tok = len(table) + 1
        table[tok] = (n, self.scope, len(self._inline_stack), getattr(self, '_locals_cache', None))

        def attempt(state):
            self._fuse_req = tok
            try:
                return self.inline(call, state)
            finally:
                self._fuse_req = None
        notes = (len(self.imprecise), len(self.unknown_branches), len(IMPRECISION))
        try:
            ok = attempt(s.fork()) is not None
        except _FuseExit:
            ok = True
        except (_FuseFail, AnalysisError):
            ok = False
        # the dry run's notes are not the real run's
        del self.imprecise[notes[0]:], self.unknown_branches[notes[1]:], IMPRECISION[notes[2]:]
        if not ok:
            return None
        try:
            r = attempt(s)
        except _FuseExit as e:
            if e.kind == 'break':
                return {'fall': [(e.state, None)]}
            return {e.kind: [(e.state, e.value)]}
        except _FuseFail:
            raise AnalysisError('the loop over the generator %s is not deterministic' % _text(call.func))
        if r is None:
            raise AnalysisError('the loop over the generator %s is not deterministic' % _text(call.func))
        exits = [st for st, _v in r]
        pend = [st for st in exits if '__exc' in st.env]
        done = [st for st in exits if '__exc' not in st.env]
        outs = {'fall': [(st, None) for st in pend]}
        if n.orelse and done:
            for kind, lst in self.block(n.orelse, done).items():
                outs.setdefault(kind, []).extend(lst)
        else:
            outs['fall'].extend((st, None) for st in done)
        return outs

    def ev_Await(self, n, s):
        return self.ev(n.value, s)

    def ev_NamedExpr(self, n, s):
        v = self.ev(n.value, s)
        self.assign(n.target, v, s, n, quiet=True)
        return v

    def ev_UnaryOp(self, n, s):
        v = self.ev(n.operand, s)
        if isinstance(n.op, ast.Not):
            t = self.truth_in(v, s)
            return TOP if t is None else (not t)
        if is_concrete(v):
            try:
                return {ast.USub: lambda x: -x, ast.UAdd: lambda x: +x, ast.Invert: lambda x: ~x}[type(n.op)](v)
            except Exception:
                return TOP
        return TOP

    def ev_BinOp(self, n, s):
        a, b = self.ev(n.left, s), self.ev(n.right, s)
        if isinstance(a, EnumVal) and a.int_like:
            a = a.attrs['value']
        if isinstance(b, EnumVal) and b.int_like:
            b = b.attrs['value']
        if isinstance(n.op, ast.Mod) and isinstance(a, str) and not isinstance(a, M._StringLetters) and isinstance(b, Obj) and self.heap:
            # '...%(name)s...' % mapping-object: each reference is looked up through the object's own __getitem__
            out, pos, ok = [], 0, True
            for mo in _re_mod.finditer(r'%(?:%|\(([^)]*)\)([sdr])|(.))', a):
                out.append(a[pos:mo.start()])
                pos = mo.end()
                if mo.group(0) == '%%':
                    out.append('%')
                elif mo.group(1) is not None:
                    sub = ast.Subscript(value=n.right, slice=ast.Constant(value=mo.group(1)), ctx=ast.Load())
                    for x in ast.walk(sub):
                        if not hasattr(x, 'lineno'):
                            x.lineno, x.col_offset, x.end_lineno, x.end_col_offset = n.lineno, 0, n.lineno, 0
                    v = self.ev(sub, s)
                    if s.env.get('__exc'):
                        return TOP
                    if not _plain(v) and not isinstance(v, TextObj):
                        ok = False
                        break
                    out.append(('%' + mo.group(2)) % (v,))
                else:
                    if self.precise_exc:
                        s.env['__exc'] = 'TypeError'       # a positional conversion with a mapping on the right
                    return TOP
            if ok:
                out.append(a[pos:])
                if '%' in a[pos:]:
                    if self.precise_exc:
                        s.env['__exc'] = 'ValueError'      # incomplete format
                    return TOP
                return ''.join(out)
            return TOP
        if is_concrete(a) and is_concrete(b) and not isinstance(a, M._StringLetters) and not isinstance(b, M._StringLetters):
            try:
                if isinstance(n.op, ast.Mod) and isinstance(a, str):
                    return a % (b if isinstance(b, (tuple, dict)) else (b,))
                return M._BINOPS[type(n.op)](a, b)
            except Exception:
                return TOP
        if isinstance(a, list) and isinstance(b, list) and isinstance(n.op, ast.Add):
            return a + b
        if isinstance(a, list) and isinstance(b, int) and isinstance(n.op, ast.Mult):
            return a * b
        return TOP

    def ev_BoolOp(self, n, s):
        is_and = isinstance(n.op, ast.And)
        last = None
        for v in n.values:
            x = self.ev(v, s)
            t = self.truth_in(x, s)
            if t is None:
                # remaining operands evaluated for events
                for w in n.values[n.values.index(v) + 1:]:
                    self.ev(w, s)
                return TOP
            last = x
            if is_and and not t:
                return x
            if not is_and and t:
                return x
        return last

    def ev_IfExp(self, n, s):
        t = self.truth_in(self.ev(n.test, s), s)
        if t is None:
            self.ev(n.body, s)
            self.ev(n.orelse, s)
            return TOP
        return self.ev(n.body if t else n.orelse, s)

    def ev_Compare(self, n, s):
        forced = self.h.decide(self, n, s)       # the checker's domain knowledge also applies to comparisons used as values
        if forced is not None:
            return forced
        left = self.ev(n.left, s)
        lnode = n.left
        result = True
        for op, rn in zip(n.ops, n.comparators):
            right = self.ev(rn, s)
            r = self.compare(op, left, right, lnode, rn)
            if r is None:
                return TOP
            if not r:
                return False
            left, lnode = right, rn
        return result

    def compare(self, op, a, b, an=None, bn=None):
        if isinstance(a, EnumVal) or isinstance(b, EnumVal):
            if isinstance(op, (ast.Is, ast.IsNot)) and isinstance(a, EnumVal) and isinstance(b, EnumVal):
                return (a is b) == isinstance(op, ast.Is)
            if isinstance(op, (ast.Eq, ast.NotEq)) and isinstance(a, EnumVal) and isinstance(b, EnumVal):
                return (a is b) == isinstance(op, ast.Eq)
            ua = a.attrs['value'] if isinstance(a, EnumVal) and a.int_like else a
            ub = b.attrs['value'] if isinstance(b, EnumVal) and b.int_like else b
            if isinstance(ua, EnumVal) or isinstance(ub, EnumVal):
                if isinstance(op, (ast.Eq, ast.NotEq)) and (_plain(ua) or _plain(ub)):
                    return isinstance(op, ast.NotEq)          # a plain enum member equals only itself
                if isinstance(op, (ast.Is, ast.IsNot)) and (_plain(ua) or _plain(ub) or ua is None or ub is None):
                    return isinstance(op, ast.IsNot)
                if isinstance(op, (ast.In, ast.NotIn)) and isinstance(ub, (list, tuple, set, frozenset)) and all(isinstance(x, EnumVal) or _plain(x) for x in ub):
                    r = any(x is ua for x in ub)
                    return r if isinstance(op, ast.In) else not r
                return None
            a, b = ua, ub
        # syntactic identity:  x is x / x is not x
        if an is not None and bn is not None and isinstance(op, (ast.Is, ast.IsNot)) and _text(an) == _text(bn):
            return isinstance(op, ast.Is)
        if isinstance(op, (ast.Is, ast.IsNot)):
            if a is None or b is None:
                other = b if a is None else a
                if other is None:
                    return isinstance(op, ast.Is)
                if other is TOP or isinstance(other, Sym) and other.truthy is None:
                    return None
                return not isinstance(op, ast.Is)
            sa_, sb_ = (isinstance(x, Sym) and x.label.startswith('sentinel@') for x in (a, b))
            if (sa_ and not sb_ and b is not TOP and not isinstance(b, Sym)) or (sb_ and not sa_ and a is not TOP and not isinstance(a, Sym)):
                return isinstance(op, ast.IsNot)         # a module-level `object()` marker is identical to nothing else
            if isinstance(a, (bool, M.ClassInfo, type)) and isinstance(b, (bool, M.ClassInfo, type)):
                return (a is b) == isinstance(op, ast.Is)       # (type objects: builtin types and the checkers' stand-in classes)
            if isinstance(a, (list, dict)) and isinstance(b, (list, dict)):
                return (a is b) == isinstance(op, ast.Is)      # identity of tracked containers
            if isinstance(a, (Obj, TextObj)) or isinstance(b, (Obj, TextObj)):
                if a is TOP or b is TOP or isinstance(a, Sym) or isinstance(b, Sym):
                    return None
                return (a is b) == isinstance(op, ast.Is)
            if isinstance(a, Sym) and isinstance(b, Sym):
                if a == b:
                    return isinstance(op, ast.Is)
                if a.attrs.get('distinct') and b.attrs.get('distinct'):
                    return isinstance(op, ast.IsNot)
            return None
        if isinstance(op, (ast.In, ast.NotIn)):
            if isinstance(b, M._StringLetters):
                if isinstance(a, str) and not isinstance(a, M._StringLetters) and len(a) == 1:
                    return a.isalpha() if isinstance(op, ast.In) else not a.isalpha()
                if isinstance(a, Sym) and 'letter' in a.attrs:
                    r = a.attrs['letter']
                    return r if isinstance(op, ast.In) else (None if r is None else not r)
                return None
            if isinstance(b, Obj) and isinstance(b.attrs.get('__dict'), dict):
                b = b.attrs['__dict']
            if isinstance(b, (list, tuple, set, frozenset, dict, str)) and is_concrete(a):
                if all(is_concrete(x) for x in (b if not isinstance(b, dict) else b.keys())):
                    try:
                        r = a in b
                    except TypeError:
                        return None
                    return r if isinstance(op, ast.In) else not r
            return None
        if is_concrete(a) and is_concrete(b):
            try:
                return M._CMPOPS[type(op)](a, b)
            except Exception:
                return None
        if isinstance(op, (ast.Eq, ast.NotEq)) and isinstance(a, (list, tuple)) and isinstance(b, (list, tuple)) and type(a) is type(b):
            # sequences with symbolic elements: different lengths differ, equal lengths compare element by element
            if len(a) != len(b):
                return isinstance(op, ast.NotEq)
            res = True
            for x, y in zip(a, b):
                r = True if x is y else self.compare(ast.Eq(), x, y)
                if r is None:
                    return None
                if not r:
                    res = False
                    break
            return res if isinstance(op, ast.Eq) else not res
        if isinstance(a, Sym) and isinstance(b, Sym) and isinstance(op, (ast.Eq, ast.NotEq)):
            if a == b:
                return isinstance(op, ast.Eq)
            if a.attrs.get('distinct') and b.attrs.get('distinct'):
                return isinstance(op, ast.NotEq)
        return None

    def _norm_call(self, call, s):
        """(A if test else B)(args) with a determined test is the call A(args) or B(args); the receiver of f(...).method(args) is
        evaluated once and kept under a temporary name (looking for the method must not run f a second time)."""
        f = call.func
        if self.heap and isinstance(f, ast.Attribute) and not isinstance(f.value, (ast.Name, ast.Attribute, ast.Constant)) \
           and any(isinstance(x, (ast.Call, ast.NamedExpr, ast.Yield, ast.Await)) for x in ast.walk(f.value)) \
           and not (isinstance(f.value, ast.Call) and isinstance(f.value.func, ast.Name) and f.value.func.id == 'super'):
            key = '__rx@%d_%d' % (getattr(f.value, 'lineno', 0), getattr(f.value, 'col_offset', 0))
            if key not in s.env:
                s.env[key] = self.ev(f.value, s)
            cache = self.__dict__.setdefault('_norm_cache', {})
            ck = (id(call), 'rx')
            if ck not in cache:
                new = ast.Call(func=ast.Attribute(value=ast.Name(id=key, ctx=ast.Load()), attr=f.attr, ctx=ast.Load()), args=call.args, keywords=call.keywords)
                ast.copy_location(new, call)
                ast.copy_location(new.func, f)
                ast.copy_location(new.func.value, f.value)
                cache[ck] = (new, call)
            call = cache[ck][0]
        if isinstance(f, ast.Attribute) and isinstance(f.value, ast.Call) and isinstance(f.value.func, ast.Name) and f.value.func.id == 'super' \
           and not f.value.args and self.model is not None and isinstance(getattr(self.scope, 'cls', None), M.ClassInfo) and 'super' not in s.env:
            # super().m(args) where the next definition of m is that of a builtin base (dict, list, ...): the call dict.m(self, args)
            me = s.env.get('self')
            start = me.cls if isinstance(me, Obj) and isinstance(me.cls, M.ClassInfo) else self.scope.cls
            mro = list(self.model.mro(start))
            if self.scope.cls in mro:
                for k_ in mro[mro.index(self.scope.cls) + 1:]:
                    if isinstance(k_, M.ClassInfo):
                        if f.attr in k_.methods or f.attr in k_.assigns:
                            break
                    elif isinstance(k_, M.External) and k_.name.split('.')[-1] in ('dict', 'list', 'str', 'tuple', 'set') \
                            and hasattr(_BUILTIN_TYPES[k_.name.split('.')[-1]], f.attr) and k_.name.split('.')[-1] not in s.env:
                        cache = self.__dict__.setdefault('_norm_cache', {})
                        ck = (id(call), 'super')
                        if ck not in cache:
                            new = ast.Call(func=ast.Attribute(value=ast.Name(id=k_.name.split('.')[-1], ctx=ast.Load()), attr=f.attr, ctx=ast.Load()),
                                           args=[ast.Name(id='self', ctx=ast.Load())] + list(call.args), keywords=call.keywords)
                            ast.copy_location(new, call)
                            ast.copy_location(new.func, f)
                            ast.copy_location(new.func.value, f.value)
                            ast.copy_location(new.args[0], f.value)
                            cache[ck] = (new, call)
                        call = cache[ck][0]
                        break
        k = 0
        while isinstance(call.func, ast.IfExp) and k < 4:
            k += 1
            t = self.truth(self.ev(call.func.test, s))
            if t is None:
                IMPRECISION.append('the callee of (%s)(...) is not determined (line %s)' % (_text(call.func)[:60], getattr(call, 'lineno', '?')))
                self.unknown_branches.append('callee %s (line %s)' % (_text(call.func)[:60], getattr(call, 'lineno', '?')))
                return call
            cache = self.__dict__.setdefault('_norm_cache', {})
            key = (id(call), bool(t))
            if key not in cache:
                new = ast.Call(func=call.func.body if t else call.func.orelse, args=call.args, keywords=call.keywords)
                ast.copy_location(new, call)
                cache[key] = (new, call)         # (the original is kept alive so that its id stays unique)
            call = cache[key][0]
        return call

    def ev_Call(self, n, s):
        n2 = self._norm_call(n, s)
        try:
            return self._ev_call(n2, s)
        finally:
            if n2 is not n and isinstance(n2.func, ast.Attribute) and isinstance(n2.func.value, ast.Name) and n2.func.value.id.startswith('__rx@'):
                s.env.pop(n2.func.value.id, None)

    def _ev_call(self, n, s):
        fname = self.canon(_text(n.func), s)
        if isinstance(n.func, ast.Name):
            cur = s.env.get(n.func.id)
            if isinstance(cur, Sym) and cur.label.startswith('method:'):
                fname = 'self.' + cur.label[7:]      # a local bound to one of our own methods
            elif isinstance(cur, Sym) and cur.label.startswith('self.') and cur.label.replace('.', '').replace('_', '').isalnum():
                fname = cur.label                     # a local / parameter bound to self.x.y (handed over by the caller)
        elif isinstance(n.func, ast.Attribute) and isinstance(n.func.value, ast.Name):
            cur = s.env.get(n.func.value.id)
            if isinstance(cur, Sym) and isinstance(cur.attrs.get('path'), str):
                fname = '%s.%s' % (cur.attrs['path'], n.func.attr)     # method of an object known by the path it was taken from
        # arguments first: an inlined helper call among them replaces the state's objects by copies
        ak = self._call_args(n, s)
        if ak is not None:
            args, kwargs = ak
        else:
            self.imprecise.append('the arguments of %s(...) are spread from a value that is not determined (line %s)' % (fname[:50], n.lineno))
            args = [self.ev(a, s) for a in n.args if not isinstance(a, ast.Starred)]
            kwargs = {}
            for k in n.keywords:
                v = self.ev(k.value, s)
                if k.arg is not None:
                    kwargs[k.arg] = v
        if fname == 'iter' and 'iter' not in s.env and len(args) == 2 and not kwargs and self.heap and self.precise_exc:
            return LazyGen(n, args[1], {}, self.scope, 'callsentinel', fn=args[0])
        if fname == 'zip' and 'zip' not in s.env and not kwargs and args and self.heap:
            scripted = type(self.h).take is not Hooks.take
            stateful = [isinstance(a, Iter) or (scripted and isinstance(a, Sym)) for a in args]
            if any(stateful):
                # zip over a stateful iterator (a token stream, a generator): items are taken on demand, one from each source in turn
                srcs = [(a if isinstance(a, Iter) else ScriptedIter(a)) if st_ else self._as_iterator(a, s) for a, st_ in zip(args, stateful)]
                if all(x is not None for x in srcs):
                    return LazyGen(n, srcs, {}, self.scope, 'zip')
        if any(isinstance(a, (LazyGen, GenObj)) for a in args):
            if fname in ('next', 'any', 'all') and fname not in s.env and isinstance(args[0], (LazyGen, GenObj)):
                gen = args[0]
                if fname == 'next':
                    item = self._take(gen, s)
                    if item is None:
                        return TOP
                    if self.precise_exc and '__exc' in s.env:
                        return TOP
                    if item is not STOP:
                        return None if item is _NONE_ITEM else item
                    if len(args) > 1:
                        return args[1]
                    if self.precise_exc:
                        s.env['__exc'] = 'StopIteration'
                    return TOP
                while True:
                    item = self._take(gen, s)
                    if item is STOP:
                        return fname == 'all'
                    t = None if item is None else self.truth_in(None if item is _NONE_ITEM else item, s)
                    if t is None:
                        self.unknown_branches.append('%s(...) over %s (line %s)' % (fname, _text(n.args[0])[:60], n.lineno))
                        return TOP
                    if t and fname == 'any':
                        return True
                    if not t and fname == 'all':
                        return False
            elif fname == 'iter' and len(args) == 1:
                return args[0]
            elif fname == 'enumerate' and fname not in s.env and len(args) == 1 and set(kwargs) <= {'start'} and isinstance(kwargs.get('start', 0), int):
                g = LazyGen(n, args[0], {}, self.scope, 'enumerate')
                g.state = kwargs.get('start', 0)
                return g
            elif not ((isinstance(n.func, ast.Name) and n.func.id in _PURE and n.func.id not in s.env)
                      or (isinstance(n.func, ast.Attribute) and n.func.attr in ('join', 'extend', 'update', 'fromkeys', 'from_iterable', 'union', 'intersection', 'difference')
                          and not self._callee_probe(n, s))
                      or fname.split('.')[-1] in ('chain', 'zip_longest', 'product', 'islice', 'starmap', 'groupby', 'deque', 'reduce', 'sorted', 'max', 'min')):
                pass                # handed on as an object (a helper of the analysed code, a lazy wrapper, a table of handlers)
            else:
                # any other consumer takes everything
                conv = []
                for a in args:
                    if isinstance(a, (LazyGen, GenObj)):
                        a = self.lazy_drain(a, s)
                        if a is None:
                            self.imprecise.append('the items of the generator expression handed to %s are not determined (line %s)' % (fname, n.lineno))
                            a = TOP
                    conv.append(a)
                args = conv
        if isinstance(n.func, ast.Attribute) and n.func.attr == '__init__' and not kwargs and self.model is not None and self.heap \
           and isinstance(getattr(self.scope, 'cls', None), M.ClassInfo):
            fv_ = n.func.value
            is_super = isinstance(fv_, ast.Call) and isinstance(fv_.func, ast.Name) and fv_.func.id == 'super' and not fv_.args and not args
            is_base = isinstance(fv_, ast.Name) and fv_.id in ('dict', 'list', 'object', 'set') and fv_.id not in s.env and len(args) == 1 \
                and args[0] is s.env.get('self')
            if is_super or is_base:
                me_ = s.env.get('self')
                start_ = me_.cls if isinstance(me_, Obj) and isinstance(me_.cls, M.ClassInfo) else self.scope.cls
                mro_ = list(self.model.mro(start_))
                rest_ = mro_[mro_.index(self.scope.cls) + 1:] if self.scope.cls in mro_ else None
                if rest_ is not None and not any(isinstance(k_, M.ClassInfo) and '__init__' in k_.methods for k_ in rest_):
                    return None           # the constructor of a builtin / library base, without arguments: nothing that is modelled changes
        if fname == 'object' and 'object' not in s.env and not args and not kwargs and isinstance(n.func, ast.Name):
            # a fresh marker object (nothing = object()): identical to itself only
            k_ = self.__dict__.setdefault('_fresh_markers', [0])
            k_[0] += 1
            return Sym('sentinel@%d#%d' % (n.lineno, k_[0]), truthy=True, attrs={'distinct': True})
        self.ncalls = getattr(self, 'ncalls', 0) + 1
        r = self.h.call(self, n, fname, args, kwargs, s)
        self.emit(s, ('call', fname, _evargs(args, n.args), n.lineno))
        if r is not None:
            return None if r is NONE else r
        # evaluate callee for bound-method detection
        fval = None
        if isinstance(n.func, ast.Attribute):
            base = self.ev(n.func.value, s)
            if isinstance(base, Stream) and n.func.attr == 'push' and len(args) == 1 and not kwargs:
                base.push(args[0])
                return None
            fval = self.getattr(base, n.func.attr, n.func, s) if not (fname in s.env) else s.env[fname]
        elif isinstance(n.func, ast.Name):
            fval = self.ev_Name(n.func, s)
        else:
            fval = self.ev(n.func, s)
        if self.inline_depth > 0 and len(self._inline_stack) < self.inline_depth:
            # helper used inside an expression: inline only when it has a single outcome
            res = self._inline_single(n, s)
            if res is not None:
                return res[0]
        if fname == 'isinstance' and 'isinstance' not in s.env and len(args) == 2 and isinstance(args[1], M.External) \
           and args[1].name.split('.')[-1] in _ABCS and _plain(args[0]) and not isinstance(args[0], (TextObj, TokStr, M._StringLetters)):
            return isinstance(args[0], _ABCS[args[1].name.split('.')[-1]])
        if fname == 'isinstance' and 'isinstance' not in s.env and len(args) == 2:
            ks0 = list(args[1]) if isinstance(args[1], tuple) else [args[1]]
            ks0 = [_BUILTIN_TYPES.get(k.name, k) if isinstance(k, M.External) else k for k in ks0]
            if ks0 and all(isinstance(k, type) and k in (str, int, float, bool, list, tuple, dict, set, bytes, type(None), frozenset) for k in ks0) \
               and _plain(args[0]) and not isinstance(args[0], (TextObj, TokStr, M._StringLetters, ListObj)):
                return isinstance(args[0], tuple(ks0))         # builtin types held in a table of the analysed code
            if ks0 and all(isinstance(k, type) and k in (str, int, float, bool, list, tuple, dict, set, bytes, frozenset) for k in ks0) \
               and type(args[0]) in (list, dict, tuple, set, frozenset):
                return isinstance(args[0], tuple(ks0))         # a container of the heap (whatever it holds) is of its own builtin type
            if ks0 and all(isinstance(k, type) and k in (str, int, float, bool, list, tuple, dict, set, bytes, frozenset) for k in ks0) \
               and isinstance(args[0], Obj) and isinstance(args[0].cls, M.ClassInfo) and self.model is not None and '__isa' not in args[0].attrs:
                ext = {b.name.split('.')[-1] for b in self.model.mro(args[0].cls) if isinstance(b, M.External)}
                if any(k.__name__ in ext for k in ks0):
                    return True
                if ext <= {'object'}:
                    return False              # an object of a class of the analysed code that derives from no builtin type
        if fname == 'isinstance' and 'isinstance' not in s.env and len(args) == 2 and self.model is not None:
            ks = list(args[1]) if isinstance(args[1], tuple) else [args[1]]
            if ks and all(isinstance(k, (M.ClassInfo, type)) for k in ks) and any(isinstance(k, M.ClassInfo) for k in ks):
                o = args[0]
                if isinstance(o, Obj) and isinstance(o.cls, M.ClassInfo):
                    mro = self.model.mro(o.cls)
                    if any(isinstance(k, M.ClassInfo) and k in mro for k in ks) or object in ks:
                        return True
                    if all(isinstance(k, M.ClassInfo) or k in (str, int, float, bool, list, tuple, bytes) for k in ks) \
                       and not (isinstance(o.attrs.get('__dict'), dict) and dict in ks):
                        return False
                elif isinstance(o, TextObj) and isinstance(o.attrs.get('__cls'), M.ClassInfo):
                    mro = self.model.mro(o.attrs['__cls'])         # a text node of a stated class (a character token: Letter, Other)
                    if any(k in mro or k is str for k in ks):
                        return True
                    if all(isinstance(k, M.ClassInfo) for k in ks):
                        return False
                elif isinstance(o, TextObj) and '__isa' not in o.attrs and all(isinstance(k, M.ClassInfo) for k in ks):
                    # a text node of the document tree: an instance of the text class of the DOM and of its bases, of nothing else
                    tx = self.model.modules.get('plasTeX.DOM')
                    tcls = tx.classes.get('Text') if tx is not None else None
                    if tcls is not None:
                        return any(k in self.model.mro(tcls) for k in ks)
                elif _plain(o) and not isinstance(o, (TextObj, TokStr)):
                    # a Python constant is an instance of none of the repository's classes
                    pyks = tuple(k for k in ks if isinstance(k, type))
                    return isinstance(o, pyks) if pyks else False
        if fname == 'isinstance' and 'isinstance' not in s.env and len(args) == 2 and _plain(args[0]) \
           and (isinstance(args[1], type) or (isinstance(args[1], tuple) and args[1] and all(isinstance(t, type) for t in args[1]))):
            return isinstance(args[0], args[1])
        if self.heap and fname in ('getattr', 'hasattr', 'setattr') and fname not in s.env and len(args) >= 2 and isinstance(args[0], M.ClassInfo) \
           and isinstance(args[1], str) and args[1].isidentifier() and self.model is not None:
            # the attribute of a class object, named by a string
            k_, nm_ = args[0], args[1]
            if fname == 'setattr' and len(args) == 3:
                s.env['__cls:%s.%s' % (k_.fullname, nm_)] = args[2]
                return None
            if fname != 'setattr':
                dyn = self._dynamic_class_attr(k_, nm_, s)
                owner_ = self.model.find_attr_class(k_, nm_)
                if fname == 'hasattr':
                    return dyn is not None or owner_ is not None
                if dyn is not None:
                    return dyn[0]
                if owner_ is not None:
                    return self.getattr(k_, nm_, n, s)
                if len(args) == 3:
                    return args[2]
                if self.precise_exc:
                    s.env['__exc'] = 'AttributeError'
                return TOP
        if self.heap and fname in ('setattr', 'getattr', 'delattr', 'hasattr') and fname not in s.env and len(args) >= 2 \
           and isinstance(args[0], (Obj, TextObj)) and isinstance(args[1], str):
            o, nm = args[0], args[1]
            if fname == 'setattr' and len(args) == 3:
                if isinstance(o, Obj) and isinstance(o.cls, M.ClassInfo) and nm.isidentifier() and self.model is not None and len(n.args) == 3:
                    # goes through a property setter when the class has one (a property without setter raises AttributeError)
                    tgt = ast.Attribute(value=n.args[0], attr=nm, ctx=ast.Store())
                    ast.copy_location(tgt, n)
                    self.assign(tgt, args[2], s, n, quiet=True)
                    return None
                o.attrs[nm] = args[2]
                return None
            if fname == 'getattr' and not nm.startswith('@') and isinstance(o, Obj) and len(n.args) >= 2:
                if nm in o.attrs:
                    return o.attrs[nm]
                if isinstance(o.cls, M.ClassInfo) and self.model is not None and nm.isidentifier():
                    owner = self.model.find_attr_class(o.cls, nm)
                    if owner is None and any(isinstance(k, M.External) and k.name in ('dict', 'list', 'str', 'object') and hasattr(__builtins__['dict' if k.name == 'dict' else k.name]
                                                                                                                     if isinstance(__builtins__, dict) else
                                                                                                                     getattr(__builtins__, k.name), nm)
                                             for k in self.model.mro(o.cls)):
                        owner = o.cls                   # inherited from a builtin base class (top.__getitem__ of a dict subclass)
                    if owner is not None:
                        src = ast.Attribute(value=n.args[0], attr=nm, ctx=ast.Load())
                        ast.copy_location(src, n)
                        return self.ev_Attribute(src, s)
                if len(args) == 3:
                    return args[2]
                if not isinstance(o.cls, M.ClassInfo):
                    return TOP                 # an object of no modelled class: as for o.name, the value is not determined
                if self.precise_exc:
                    s.env['__exc'] = 'AttributeError'
                return TOP
            if fname == 'delattr':
                if nm in o.attrs:
                    del o.attrs[nm]
                elif self.precise_exc:
                    s.env['__exc'] = 'AttributeError'
                return None
            if fname == 'hasattr' and nm.startswith('@'):
                return nm in o.attrs
            if fname == 'hasattr' and nm in o.attrs:
                return True
            if fname == 'hasattr' and isinstance(o, Obj) and o.attrs.get('__closed') and isinstance(o.cls, M.ClassInfo) and self.model is not None \
               and self.model.find_attr_class(o.cls, nm) is None:
                return False
            if fname == 'getattr' and nm.startswith('@'):
                if nm in o.attrs:
                    return o.attrs[nm]
                if len(args) == 3:
                    return args[2]
                if self.precise_exc:
                    s.env['__exc'] = 'AttributeError'
                return TOP
        if fname == 'type' and 'type' not in s.env and len(args) == 1 and not kwargs and self.heap and isinstance(args[0], Obj) \
           and isinstance(args[0].cls, M.ClassInfo) and not isinstance(args[0], EnumVal) and '__classobj' not in args[0].attrs:
            if '__class__' in args[0].attrs:
                return args[0].attrs['__class__']          # the scenario gave the object a class object of its own
            return args[0].cls                # the class of a heap object of the analysed code (when the scenario does not say otherwise)
        if fname == 'type' and 'type' not in s.env and len(args) == 1 and not kwargs and _plain(args[0]) and not isinstance(args[0], (TextObj, TokStr, M._StringLetters)):
            return type(args[0])
        if fname == 'hasattr' and 'hasattr' not in s.env and len(args) == 2 and isinstance(args[1], str) and _plain(args[1]) and _plain(args[0]) \
           and not isinstance(args[0], (TextObj, TokStr)):
            return hasattr(args[0], args[1])        # a Python constant (str, number, list, dict, None)
        if fname == 'iter' and 'iter' not in s.env and len(args) == 1 and not kwargs:
            if isinstance(args[0], (list, tuple)) or (isinstance(args[0], str) and not isinstance(args[0], M._StringLetters)):
                return Iter(args[0], live=self.heap and type(args[0]) is list)
            if isinstance(args[0], Iter):
                return args[0]
        if fname == 'next' and 'next' not in s.env and args and isinstance(args[0], Iter):
            if getattr(args[0], 'lazy_mismatch', None):
                self.imprecise.append(args[0].lazy_mismatch)
            item = args[0].take()
            if item is not STOP:
                return item
            if len(args) > 1:
                return args[1]
            s.flags = s.flags + (('stop-iteration', n.lineno),)
            if self.precise_exc and self.heap:
                s.env['__exc'] = 'StopIteration'
            return TOP
        if fname.endswith('stringletters') and not args:
            return M.STRINGLETTERS
        if fval is TOP and isinstance(n.func, ast.Name) and len(args) == 1 and self.model is not None and self.scope is not None:
            rr = self.model.resolve_name(self.scope, n.func.id)
            if isinstance(rr, tuple) and rr[0] == 'assign' and isinstance(rr[2][-1], ast.Call) \
               and _text(rr[2][-1].func).endswith('NewType'):
                return args[0]
        r_ = self._functional_call(n, fname, fval, args, kwargs, s)
        if r_ is not None:
            return r_[0]
        if isinstance(fval, M.External) and fval.name in ('itertools.takewhile', 'takewhile', 'itertools.dropwhile', 'dropwhile', 'filter', 'map',
                                                          'itertools.filterfalse', 'filterfalse') and len(args) == 2 \
           or (isinstance(n.func, ast.Name) and n.func.id in ('filter', 'map') and n.func.id not in s.env and len(args) == 2):
            kind = (fval.name if isinstance(fval, M.External) else n.func.id).split('.')[-1]
            seq = args[1]
            src_iter = None
            if isinstance(seq, Sym) and self.heap and type(self.h).take is not Hooks.take:
                seq = ScriptedIter(seq)          # a stream that the scenario scripts
            if kind in ('map', 'filter', 'filterfalse') and self.heap and self.precise_exc and not isinstance(seq, Iter) \
               and (isinstance(args[0], (Sym, Partial, OpCall, M.FunctionInfo)) or (isinstance(args[0], tuple) and len(args[0]) == 3 and args[0][0] == 'boundmethod'
                                                                                    and not _plain(args[0][1]))):
                # the function is one of the analysed code or of the scenario: it runs when the items are asked for, not now
                src_ = self._as_iterator(seq, s)
                if src_ is not None:
                    return LazyGen(n, src_, {}, self.scope, kind, args[0])
            if isinstance(seq, (LazyGen, GenObj, ScriptedIter)) or (isinstance(seq, CountIter) and kind != 'takewhile'):
                return LazyGen(n, seq, {}, self.scope, kind, args[0])
            if isinstance(seq, CountIter) and kind == 'takewhile':
                src_iter = seq
                seq = [seq.start + (seq.pos + i) * seq.step for i in range(64)]
            elif isinstance(seq, Iter) and not isinstance(seq, CountIter):
                src_iter = seq
                seq = seq.items[seq.pos:]
            elif isinstance(seq, (dict, set, frozenset, range)) or (isinstance(seq, str) and not isinstance(seq, M._StringLetters)):
                seq = self._seq_of(seq)
            if isinstance(seq, (list, tuple)) and len(seq) <= 64:
                out, ok, dropping, seen = [], True, True, 0
                for item in seq:
                    seen += 1
                    r = self.apply_value(args[0], [item], {}, s, n.lineno) if args[0] is not None else (item,)
                    if r is None and isinstance(n.args[0], (ast.Name, ast.Attribute)) and (args[0] is TOP or isinstance(args[0], Sym)):
                        # the function is known only by the expression that names it (an object of the scenario): that call, written out
                        nm_ = self._with_temps({'__item': item}, s)
                        call_ = ast.Call(func=n.args[0], args=[ast.Name(id=nm_['__item'], ctx=ast.Load())], keywords=[])
                        ast.copy_location(call_, n)
                        ast.copy_location(call_.args[0], n)
                        try:
                            v_ = self.ev(call_, s)
                        finally:
                            s.env.pop(nm_['__item'], None)
                        r = None if v_ is TOP else (v_,)
                    if r is None:
                        ok = False
                        break
                    t = self.truth_in(r[0], s) if kind != 'map' else None
                    if kind == 'map':
                        out.append(r[0])
                    elif t is None:
                        ok = False
                        break
                    elif kind == 'takewhile':
                        if not t:
                            break
                        out.append(item)
                    elif kind == 'dropwhile':
                        if dropping and t:
                            continue
                        dropping = False
                        out.append(item)
                    elif kind == 'filterfalse':
                        if not t:
                            out.append(item)
                    elif t:
                        out.append(item)
                if ok and isinstance(src_iter, CountIter) and seen >= 64 and len(out) >= 64:
                    ok = False                   # no end in sight
                if ok:
                    res = Iter(out)
                    if src_iter is not None:
                        # the items were taken from a stateful iterator: it has moved on (takewhile: up to and including the item that failed)
                        src_iter.pos += seen
                        res.derived_from = (src_iter, src_iter.pos, len(src_iter.items))
                    return res
            return TOP
        if isinstance(fval, M.External) and fval.name in ('itertools.count', 'count') and all(isinstance(a, int) for a in args) and len(args) <= 2 and not kwargs:
            return CountIter(*args)
        if isinstance(fval, M.External) and fval.name in ('re.sub', 're.findall', 're.split', 're.compile', 're.escape', 'string.Template') \
           and args and all(_plain(a) for a in args) and all(_plain(v) for v in kwargs.values()):
            try:
                f = getattr(_re_mod, fval.name[3:]) if fval.name.startswith('re.') else _string_mod.Template
                return f(*args, **kwargs)
            except Exception as e:
                if self.precise_exc:
                    s.env['__exc'] = type(e).__name__
                return TOP
        if isinstance(fval, M.External) and fval.name == 're.sub' and len(args) == 3 and isinstance(args[0], str) and isinstance(args[2], str) \
           and _plain(args[0]) and _plain(args[2]) and all(_plain(v) for v in kwargs.values()):
            # a replacement that is not a constant (a function): decided when the pattern does not occur at all,
            # or when the function is a lambda / nested function of the analysed code with one outcome per match
            try:
                if _re_mod.search(args[0], args[2], kwargs.get('flags', 0)) is None:
                    return args[2]
            except Exception:
                return TOP
            if (isinstance(args[1], Sym) and (isinstance(args[1].attrs.get('node'), ast.FunctionDef) or args[1].label.startswith(('method:', 'boundmethod:')))) \
               or isinstance(args[1], (M.FunctionInfo, Partial, OpCall)):
                class _Abort(Exception):
                    pass

                def cb(mo):
                    r = self.apply_value(args[1], [mo], {}, s, n.lineno)
                    if r is None or not isinstance(r[0], str) or isinstance(r[0], M._StringLetters):
                        raise _Abort()
                    return str(r[0])
                try:
                    return _re_mod.sub(args[0], cb, args[2], **kwargs)
                except _Abort:
                    return TOP
                except Exception:
                    return TOP
            return TOP
        if isinstance(fval, M.External) and fval.name in ('html.escape', 'html.unescape') and args and all(isinstance(a, (str, bool, int)) for a in args) \
           and not isinstance(args[0], M._StringLetters) and all(isinstance(v, (bool, int)) for v in kwargs.values()):
            import html as _html_mod
            return getattr(_html_mod, fval.name[5:])(*[str(a) if isinstance(a, str) else a for a in args], **kwargs)
        if isinstance(fval, M.External) and fval.name in ('urllib.parse.urljoin', 'urljoin', 'urllib.parse.quote', 'urllib.parse.unquote') \
           and args and all(isinstance(a, str) and _plain(a) for a in args) and not kwargs:
            import urllib.parse as _up
            return getattr(_up, fval.name.split('.')[-1])(*args)
        if isinstance(fval, M.External) and fval.name in ('os.path.join', 'os.path.basename', 'os.path.dirname', 'os.path.splitext', 'os.path.split',
                                                          'os.path.normpath') and args and any(isinstance(a, _pathlib.PurePosixPath) for a in args):
            args = [str(a) if isinstance(a, _pathlib.PurePosixPath) else a for a in args]
        if isinstance(fval, M.External) and fval.name in ('os.path.join', 'os.path.basename', 'os.path.dirname', 'os.path.splitext', 'os.path.split',
                                                          'os.path.normpath') and args and all(isinstance(a, str) for a in args) and not kwargs:
            import posixpath as _pp
            try:
                return getattr(_pp, fval.name.rsplit('.', 1)[1])(*args)
            except Exception:
                return TOP
        if isinstance(fval, M.External) and fval.name.startswith('operator.') and all(is_concrete(a) for a in args) and not kwargs:
            import operator as _operator
            f = getattr(_operator, fval.name.split('.', 1)[1], None)
            if callable(f):
                try:
                    return f(*args)
                except Exception:
                    return TOP
        if isinstance(fval, type) and fval in (int, float, str, bool, list, dict, tuple) and all(_plain(a) for a in args) and not kwargs \
           and not any(isinstance(a, M._StringLetters) for a in args):
            # a builtin type held in a variable (type(self.value)(text))
            try:
                return fval(*args)
            except Exception as e:
                if self.precise_exc:
                    s.env['__exc'] = type(e).__name__
                return TOP
        # model classes -> instances
        if isinstance(fval, M.ClassInfo) and self.model is not None and len(args) == 1 and not kwargs and self._enum_kind(fval) is not None:
            mem = self._enum_members(fval, s)
            if mem is not None and is_concrete(args[0]):
                for e_ in mem:
                    if e_ is args[0] or (not isinstance(args[0], Obj) and e_.attrs['value'] == args[0] and type(e_.attrs['value']) is type(args[0])):
                        return e_                 # Colour('red'): the member with that value
                if self.precise_exc:
                    s.env['__exc'] = 'ValueError'
                return TOP
            return TOP
        if isinstance(fval, M.ClassInfo):
            if self.heap:
                is_list = any(isinstance(k, M.External) and k.name in ('list', 'builtins.list') for k in self.model.mro(fval)) if self.model is not None else False
                o = ListObj(fval, '%s@%d' % (fval.name, n.lineno)) if is_list else Obj('%s@%d' % (fval.name, n.lineno), {'__args': tuple(args)}, cls=fval)
                if isinstance(o, Obj) and self.model is not None and any(isinstance(k, M.External) and k.name.split('.')[-1] in ('dict', 'Dict', 'OrderedDict', 'defaultdict')
                                                                         for k in self.model.mro(fval)):
                    o.attrs['__dict'] = {}
                init = self.model.find_method(fval, '__init__') if self.model is not None else None
                # constructors are interpreted on request (run_init) and, in any case, for private helper classes (`_Name`): the small
                # value / state holders that a function is split into are nothing without their __init__
                auto_init = fval.name.startswith('_') and not fval.name.startswith('__') and self.precise_exc
                if init is not None and (self.run_init or auto_init) and self.inline_depth > 0 and len(self._inline_stack) < self.inline_depth:
                    key = '__obj@%d' % len(self._inline_stack)
                    s.env[key] = o
                    # the arguments were evaluated above: the constructor call uses those values, not the expressions once more
                    tmp = self._with_temps(dict({'__ia%d' % i: a for i, a in enumerate(args)}, **{'__ik_' + k: v for k, v in kwargs.items()}), s)
                    call = ast.Call(func=ast.Attribute(value=ast.Name(id=key, ctx=ast.Load()), attr='__init__', ctx=ast.Load()),
                                    args=[ast.Name(id=tmp['__ia%d' % i], ctx=ast.Load()) for i in range(len(args))],
                                    keywords=[ast.keyword(arg=k, value=ast.Name(id=tmp['__ik_' + k], ctx=ast.Load())) for k in kwargs])
                    for x in ast.walk(call):
                        ast.copy_location(x, n)
                    self._force_callee = init
                    try:
                        res = self.inline(call, s.fork())
                    except AnalysisError:
                        res = None
                    if res is not None and len(res) == 1:
                        self._force_callee = init
                        res = self.inline(call, s)
                        st = res[0][0]
                        _old_env = s.env
                        s.env, s.trace, s.assumed, s.flags = st.env, st.trace, st.assumed, st.flags
                        _rebind_closures(s.env, _old_env)
                        o = s.env.get(key, o)
                        if isinstance(o, Obj):
                            o.attrs['__closed'] = True
                    else:
                        self.imprecise.append('%s.__init__ could not be interpreted (line %s)' % (fval.name, n.lineno))
                    self._force_callee = None
                    s.env.pop(key, None)
                    for nm_ in tmp.values():
                        s.env.pop(nm_, None)
                elif init is None and isinstance(o, Obj) and self.model is not None and self._dataclass_fields(fval) is not None:
                    if not self._dataclass_init(o, fval, list(args), dict(kwargs), s, n):
                        self.imprecise.append('the generated __init__ of the dataclass %s could not be interpreted (line %s)' % (fval.name, n.lineno))
                elif init is None and isinstance(o, Obj) and self.model is not None \
                        and all(isinstance(k, M.ClassInfo) or getattr(k, 'name', '') in ('object', 'builtins.object') for k in self.model.mro(fval)):
                    o.attrs['__closed'] = True        # no __init__ anywhere in a fully known MRO: a new object has no instance attributes
                return o
            return Inst(fval, args)
        if isinstance(fval, tuple) and len(fval) == 3 and fval[0] == 'boundmethod':
            _, recv, meth = fval
            self._pending_exc = None
            if isinstance(recv, _re_mod.Pattern) and meth == 'sub' and len(args) == 2 and not _plain(args[0]) and isinstance(args[1], str) \
               and _plain(args[1]) and not kwargs:
                # compiled pattern, replacement function: the function of the analysed code is applied to each match
                if recv.search(str(args[1])) is None:
                    return args[1]

                class _Abort2(Exception):
                    pass

                def cb2(mo):
                    r_ = self.apply_value(args[0], [mo], {}, s, n.lineno)
                    if r_ is None or not isinstance(r_[0], str) or isinstance(r_[0], M._StringLetters):
                        raise _Abort2()
                    return str(r_[0])
                try:
                    return recv.sub(cb2, str(args[1]))
                except _Abort2:
                    return TOP
                except Exception:
                    return TOP
            r = self._builtin_method(recv, meth, args, kwargs)
            if self._pending_exc and self.precise_exc:
                s.env['__exc'] = self._pending_exc
            return r
        if isinstance(n.func, ast.Name) and n.func.id == 'dict' and 'dict' not in s.env and not args and kwargs:
            return dict(kwargs)
        if isinstance(n.func, ast.Name) and n.func.id in ('len', 'list', 'tuple', 'iter', 'reversed', 'sorted', 'enumerate') and n.func.id not in s.env \
           and len(args) >= 1 and isinstance(args[0], M.ClassInfo) and self.model is not None:
            mem = self._enum_members(args[0], s)
            if mem is not None:
                if n.func.id == 'len':
                    return len(mem)
                args = [list(mem)] + list(args[1:])          # list(Colour), enumerate(Colour), ...
        if isinstance(n.func, ast.Name) and n.func.id == 'len' and 'len' not in s.env and len(args) == 1 \
           and isinstance(args[0], (list, tuple, dict)) and not kwargs:
            return len(args[0])
        if isinstance(n.func, ast.Name) and n.func.id in ('enumerate', 'list', 'tuple', 'len', 'sorted', 'reversed', 'iter') and n.func.id not in s.env \
           and args and isinstance(args[0], Obj):
            args = [self.materialize(args[0], s)] + list(args[1:])
            if n.func.id == 'iter' and isinstance(args[0], list):
                return Iter(args[0])
            if n.func.id == 'len' and isinstance(args[0], list):
                return len(args[0])
        if isinstance(n.func, ast.Name) and n.func.id not in s.env and n.func.id in _PURE and any(isinstance(a, Iter) for a in args):
            args = [list(a.items[a.pos:]) if isinstance(a, Iter) else a for a in args]      # a generator handed to all()/any()/list()...
        if isinstance(n.func, ast.Name) and n.func.id not in s.env and n.func.id in ('enumerate', 'reversed', 'list', 'tuple', 'zip') and args \
           and all(isinstance(a, (list, tuple)) and not isinstance(a, ListObj) for a in args[:1 if n.func.id == 'enumerate' else len(args)]):
            # structural: the elements may be symbolic
            try:
                if n.func.id == 'enumerate' and (len(args) == 1 or isinstance(args[1], int)) and set(kwargs) <= {'start'} \
                   and isinstance(kwargs.get('start', 0), int):
                    return list(enumerate(args[0], args[1] if len(args) > 1 else kwargs.get('start', 0)))
                if n.func.id == 'reversed' and len(args) == 1 and not kwargs:
                    return list(reversed(args[0]))
                if n.func.id == 'list' and len(args) == 1 and not kwargs:
                    return list(args[0])
                if n.func.id == 'tuple' and len(args) == 1 and not kwargs:
                    return tuple(args[0])
                if n.func.id == 'zip' and not kwargs:
                    return list(zip(*args))
            except Exception:
                return TOP
        if isinstance(n.func, ast.Name) and n.func.id not in s.env:
            b = _PURE.get(n.func.id)
            if b is not None and all(is_concrete(a) for a in args) and (not kwargs or (n.func.id in ('enumerate', 'sorted', 'int', 'round', 'sum', 'min', 'max')
                                                                                  and all(_plain(v) for v in kwargs.values()))):
                if not any(isinstance(a, M._StringLetters) for a in args):
                    try:
                        return b(*args, **kwargs)
                    except Exception:
                        return TOP
        if not (isinstance(n.func, ast.Attribute) and _text(n.func.value) in _NOTHROW) and fname not in _NOTHROW_CALLS:
            self._maythrow += 1
        if self.heap and isinstance(n.func, ast.Attribute) and fval is TOP and n.func.attr in ('append', 'appendChild', 'insert', 'extend', 'remove', 'add', 'update') \
           and any(isinstance(a, (Obj, TextObj)) for a in args) and '__exc' not in s.env:
            # (with an exception pending from the receiver expression - refs[label] of a missing key - the call never happens)
            self.imprecise.append('%s(...) on a receiver that is not modelled: its effect is lost (line %s)' % (fname, n.lineno))
        if isinstance(n.func, (ast.Subscript, ast.Call, ast.IfExp, ast.BoolOp, ast.NamedExpr)) and self.heap:
            # a computed callee (a dispatch table, a conditional, the result of another call) that was not followed: whatever it does is lost
            self.imprecise.append('the callee of %s(...) is computed and was not followed: its effect is lost (line %s)' % (_text(n.func)[:50], n.lineno))
        return TOP

    def _dataclass_fields(self, cls):
        """[(field name, default expression or None, defining class)] of a @dataclass class in the order of its generated __init__;
        None when cls is not a dataclass."""
        cache = self.__dict__.setdefault('_dc_cache', {})
        if cls.fullname in cache:
            return cache[cls.fullname]

        def is_dc(k):
            return self._decorated(k.node, k, 'dataclass') is not None
        res = None
        if is_dc(cls):
            fields = {}
            for k in reversed([k for k in self.model.mro(cls) if isinstance(k, M.ClassInfo)]):
                if not is_dc(k):
                    continue
                for st in k.node.body:
                    if isinstance(st, ast.AnnAssign) and isinstance(st.target, ast.Name) and 'ClassVar' not in _text(st.annotation):
                        fields[st.target.id] = (st.target.id, st.value, k)
            res = list(fields.values())
        cache[cls.fullname] = res
        return res

    def _dataclass_init(self, o, cls, args, kwargs, s, n):
        fields = self._dataclass_fields(cls)
        if len(args) > len(fields) or any(k not in [f[0] for f in fields] for k in kwargs):
            if self.precise_exc:
                s.env['__exc'] = 'TypeError'
            return True
        dec = self._decorated(cls.node, cls, 'dataclass')
        opts = {k.arg: getattr(k.value, 'value', None) for k in dec.keywords} if isinstance(dec, ast.Call) else {}
        names = []
        for i, (name, default, owner) in enumerate(fields):
            if i < len(args):
                if name in kwargs:
                    if self.precise_exc:
                        s.env['__exc'] = 'TypeError'
                    return True
                v = args[i]
            elif name in kwargs:
                v = kwargs[name]
            elif default is None:
                if self.precise_exc:
                    s.env['__exc'] = 'TypeError'        # a required field was not given
                return True
            else:
                if isinstance(default, ast.Call) and _text(default.func).split('.')[-1] == 'field':
                    kw = {k.arg: k.value for k in default.keywords}
                    if 'default_factory' in kw and _text(kw['default_factory']) in ('list', 'dict', 'set', 'tuple'):
                        v = {'list': list, 'dict': dict, 'set': set, 'tuple': tuple}[_text(kw['default_factory'])]()
                    elif 'default' in kw:
                        v = self._from_model(self.model.eval_const(owner, kw['default']))
                    elif 'default_factory' in kw:
                        fv_ = self.ev(kw['default_factory'], s)          # a lambda or a function of the analysed code
                        r_ = self.apply_value(fv_, [], {}, s, n.lineno)
                        if r_ is None:
                            return False
                        v = r_[0]
                    else:
                        return False
                else:
                    v = self.getattr(owner, name, n, s)        # the class attribute holds the default
                if v is TOP:
                    return False
            o.attrs[name] = v
            names.append(name)
        if opts.get('eq', True) is not False:
            o.attrs['__dc_fields'] = tuple(names)
        o.attrs['__closed'] = True
        if self.model.find_method(cls, '__post_init__') is not None:
            r = self._call_obj_method(o, '__post_init__', [], s, n.lineno)
            if r is None:
                return False
        return True

    def _builtin_method(self, recv, meth, args, kwargs):
        if isinstance(recv, M._StringLetters):
            if meth == 'replace' and len(args) >= 2 and isinstance(args[0], str) and len(args[0]) == 1 and not args[0].isalpha() \
               and not isinstance(args[0], M._StringLetters):
                return recv            # removing a character that is not a letter from the set of all letters
            if meth == '__contains__' and len(args) == 1 and isinstance(args[0], str) and not isinstance(args[0], M._StringLetters) and len(args[0]) == 1:
                return args[0].isalpha()           # membership of one character in the letters of the alphabet(s)
            return TOP
        if isinstance(recv, _REAL_TYPES):
            # methods of library objects built from constants (compiled patterns, string templates): the library's own semantics
            args = [str(a) if isinstance(a, TextObj) else a for a in args]          # a text node is a string for the library
            if all(_plain(a) for a in args) and all(_plain(v) for v in kwargs.values()):
                try:
                    return getattr(recv, meth)(*args, **kwargs)
                except Exception as e:
                    self._pending_exc = type(e).__name__
                    return TOP
            return TOP
        if isinstance(recv, bytes):
            if all(isinstance(a, (bytes, str, int)) for a in args) and all(_plain(v) for v in kwargs.values()):
                try:
                    return getattr(recv, meth)(*args, **kwargs)
                except Exception as e:
                    self._pending_exc = type(e).__name__
                    return TOP
            return TOP
        if isinstance(recv, M._StringLetters) and meth == '__contains__' and len(args) == 1 and isinstance(args[0], str) and not isinstance(args[0], M._StringLetters):
            return len(args[0]) == 1 and args[0].isalpha() if len(args[0]) == 1 else TOP      # the letters of the alphabet(s): membership of one character
        if isinstance(recv, str) and not isinstance(recv, M._StringLetters) and meth in ('__contains__', '__getitem__', '__len__', '__eq__', '__ne__') \
           and all(_plain(a) and not isinstance(a, M._StringLetters) for a in args) and not kwargs:
            try:
                return getattr(str(recv), meth)(*[str(a) if isinstance(a, TextObj) else a for a in args])
            except Exception as e:
                self._pending_exc = type(e).__name__
                return TOP
        if isinstance(recv, str) and any(isinstance(a, M._StringLetters) for a in list(args) + list(kwargs.values())):
            # the set of all letters (encoding.stringletters()) handed to a string method: only stripping is modelled, by the predicate
            if meth in ('strip', 'rstrip', 'lstrip') and len(args) == 1 and not kwargs and not isinstance(recv, M._StringLetters):
                t = str(recv)
                if meth in ('strip', 'lstrip'):
                    while t and t[0].isalpha():
                        t = t[1:]
                if meth in ('strip', 'rstrip'):
                    while t and t[-1].isalpha():
                        t = t[:-1]
                return t
            self.imprecise.append('str.%s with the set of all letters as an argument is not modelled' % meth)
            return TOP
        if isinstance(recv, str):
            if any(isinstance(a, Iter) for a in args):
                conv = []
                for a in args:
                    if isinstance(a, Iter) and not isinstance(a, (CountIter, LazyGen, GenObj)):
                        seq = self._seq_of(a)           # a plain iterator handed to join(): consumed there
                        a = [str(x) if isinstance(x, TextObj) else x for x in seq]
                    conv.append(a)
                args = conv
            if all(is_concrete(a) and not isinstance(a, Iter) for a in args) and all(_plain(v) for v in kwargs.values()):
                try:
                    return getattr(recv, meth)(*args, **kwargs)
                except Exception:
                    return TOP
            return TOP
        if isinstance(recv, (list, dict, tuple)) and meth in ('__getitem__', '__contains__', '__len__', 'count') and not kwargs:
            if all(_plain(a) for a in args):
                try:
                    return getattr(recv, meth)(*args)
                except (KeyError, IndexError, TypeError) as e:
                    self._pending_exc = type(e).__name__
                    return TOP
            return TOP
        if isinstance(recv, tuple) and meth in ('_replace', '_asdict', 'index', 'count'):
            try:
                return getattr(recv, meth)(*args, **kwargs)
            except Exception as e:
                self._pending_exc = type(e).__name__
                return TOP
        if isinstance(recv, set):
            if all(is_concrete(a) for a in args) and not kwargs:
                try:
                    return getattr(recv, meth)(*args)
                except KeyError:
                    self._pending_exc = 'KeyError'
                    return TOP
                except TypeError:
                    pass
            self.imprecise.append('set.%s with arguments that are not modelled: its effect is lost' % meth)
            return TOP
        if isinstance(recv, DequeList) and meth in ('appendleft', 'popleft', 'extendleft', 'rotate') and not kwargs:
            if meth == 'appendleft' and len(args) == 1:
                recv.insert(0, args[0])
                if recv.maxlen is not None and len(recv) > recv.maxlen:
                    recv.pop()
                return None
            if meth == 'popleft' and not args:
                if not recv:
                    self._pending_exc = 'IndexError'
                    return TOP
                return recv.pop(0)
            if meth == 'extendleft' and len(args) == 1:
                seq = self._seq_of(args[0])
                if seq is None:
                    self.imprecise.append('deque.extendleft with items that are not determined: its effect is lost')
                    return TOP
                for x in seq:
                    recv.insert(0, x)
                return None
            if meth == 'rotate' and len(args) <= 1 and all(isinstance(a, int) for a in args):
                k = (args[0] if args else 1)
                if recv:
                    k %= len(recv)
                    recv[:] = recv[-k:] + recv[:-k] if k else list(recv)
                return None
            self.imprecise.append('deque.%s with arguments that are not modelled: its effect is lost' % meth)
            return TOP
        if isinstance(recv, list):
            if meth == 'append' and len(args) == 1:
                recv.append(args[0])
                if isinstance(recv, DequeList) and recv.maxlen is not None and len(recv) > recv.maxlen:
                    list.pop(recv, 0)
                return None
            if meth == 'extend' and len(args) == 1 and isinstance(args[0], (list, tuple)):
                recv.extend(args[0])
                return None
            if meth == 'extend' and len(args) == 1 and isinstance(args[0], Iter) and not isinstance(args[0], CountIter):
                recv.extend(args[0].items[args[0].pos:])
                args[0].pos = len(args[0].items)
                return None
            if meth == 'pop':
                if args and not all(isinstance(a, int) and not isinstance(a, bool) for a in args):
                    self.imprecise.append('list.pop with an index that is not determined: its effect is lost')
                    return TOP
                try:
                    return recv.pop(*args)
                except IndexError:
                    self._pending_exc = 'IndexError'        # pop from an empty list / index out of range
                    return TOP
                except Exception:
                    return TOP
            if meth == 'insert' and len(args) == 2 and isinstance(args[0], int):
                recv.insert(args[0], args[1])
                return None
            if meth == 'copy':
                return list(recv)
            if meth in ('index', 'count') and len(args) >= 1 and not any(a is TOP or isinstance(a, Sym) for a in args):
                try:
                    return getattr(recv, meth)(*args)       # Python equality: the modelled objects define theirs
                except ValueError:
                    self._pending_exc = 'ValueError'
                    return TOP
            if meth == 'remove' and len(args) == 1 and not (args[0] is TOP or isinstance(args[0], Sym)):
                try:
                    recv.remove(args[0])
                    return None
                except ValueError:
                    self._pending_exc = 'ValueError'
                    return TOP
            if meth == 'reverse' and not args:
                recv.reverse()
                return None
            if meth == 'clear' and not args:
                del recv[:]
                return None
            if meth == 'sort' and not args and set(kwargs) <= {'reverse'} and all(_plain(x) for x in recv) and isinstance(kwargs.get('reverse', False), bool):
                try:
                    recv.sort(**kwargs)
                    return None
                except TypeError:
                    pass
            if meth in ('append', 'extend', 'insert', 'pop', 'remove', 'clear', 'sort', 'reverse', '__setitem__', '__delitem__'):
                self.imprecise.append('list.%s with arguments that are not modelled: its effect is lost' % meth)
            return TOP
        if isinstance(recv, dict):
            if meth == 'get' and args and is_concrete(args[0]):
                try:
                    return recv.get(args[0], args[1] if len(args) > 1 else None)
                except TypeError:
                    return TOP
            if meth in ('keys', 'values', 'items'):
                return list(getattr(recv, meth)())
            if meth == 'copy':
                return dict(recv)
            if meth == 'clear':
                recv.clear()
                return None
            if meth == 'update' and len(args) == 1 and isinstance(args[0], dict) and not kwargs:
                recv.update(args[0])
                return None
            if meth == 'setdefault' and args and is_concrete(args[0]):
                try:
                    return recv.setdefault(args[0], args[1] if len(args) > 1 else None)
                except TypeError:
                    return TOP
            if meth == 'pop' and args and is_concrete(args[0]) and not kwargs:
                try:
                    return recv.pop(*args)
                except KeyError:
                    self._pending_exc = 'KeyError'
                    return TOP
                except TypeError:
                    return TOP
            if meth == 'update' and not args and kwargs:
                recv.update(kwargs)
                return None
            if meth == 'update' and len(args) == 1 and isinstance(args[0], Iter) and not isinstance(args[0], CountIter):
                pairs = args[0].items[args[0].pos:]
                if all(isinstance(x, (list, tuple)) and len(x) == 2 for x in pairs):
                    try:
                        recv.update((k, v) for k, v in pairs)
                        args[0].pos = len(args[0].items)
                        recv.update(kwargs)
                        return None
                    except TypeError:
                        pass
            if meth == 'update' and len(args) == 1 and isinstance(args[0], (list, tuple)) and not kwargs:
                try:
                    recv.update(args[0])
                    return None
                except (TypeError, ValueError):
                    pass
            if meth in ('pop', 'popitem', 'update', 'setdefault', 'clear', '__setitem__', '__delitem__'):
                self.imprecise.append('dict.%s with arguments that are not modelled: its effect is lost' % meth)
            return TOP
        return TOP


_NOTHROW = {'log', 'logging', 'status', 'stacklog', 'macrolog', 'tokenlog', 'digestlog', 'grouplog', 'deflog', 'warnings'}
_NOTHROW_CALLS = {'isinstance', 'issubclass', 'type', 'id', 'len', 'repr', 'str', 'hasattr', 'callable', 'print'}

import re as _re_mod
import string as _string_mod
import collections.abc as _abc
_ABCS = {'Sequence': _abc.Sequence, 'Mapping': _abc.Mapping, 'Iterable': _abc.Iterable, 'MutableSequence': _abc.MutableSequence,
         'MutableMapping': _abc.MutableMapping, 'Set': _abc.Set, 'Sized': _abc.Sized, 'Hashable': _abc.Hashable, 'Callable': _abc.Callable}
import pathlib as _pathlib
_REAL_TYPES = (_re_mod.Pattern, _string_mod.Template, _re_mod.Match, _pathlib.PurePosixPath)


def _plain(v):
    """A value made only of Python constants (safe to hand to a library function)."""
    if isinstance(v, (str, int, float, bool, type(None))) and not isinstance(v, (TextObj, TokStr, M._StringLetters)):
        return True
    if isinstance(v, (list, tuple)):
        return all(_plain(x) for x in v)
    if isinstance(v, dict):
        return all(_plain(k) and _plain(x) for k, x in v.items())
    return False


_BUILTIN_TYPES = {'str': str, 'int': int, 'float': float, 'list': list, 'dict': dict, 'tuple': tuple, 'bool': bool, 'bytes': bytes,
                  'set': set, 'frozenset': frozenset, 'object': object, 'slice': slice}

_PURE = {'len': len, 'int': int, 'str': str, 'bool': bool, 'ord': ord, 'chr': chr,
         'abs': abs, 'min': min, 'max': max, 'list': list, 'tuple': tuple,
         'float': float, 'range': range, 'sorted': sorted, 'reversed': lambda x: list(reversed(x)),
         'sum': sum, 'set': set, 'dict': dict, 'enumerate': lambda x, start=0: list(enumerate(x, start)),
         'divmod': divmod, 'round': round, 'pow': pow, 'hex': hex, 'oct': oct, 'bin': bin, 'any': any, 'all': all,
         'zip': lambda *a: list(zip(*a)), 'repr': repr}


def _known(a):
    if isinstance(a, (Inst, Sym, M.ClassInfo)):
        return True
    if isinstance(a, tuple):
        return all(_known(x) for x in a)
    return is_concrete(a) and not isinstance(a, (list, dict, set))


def _evarg(a, x):
    return a if _known(a) else _text(x)


def _evargs(args, nodes):
    if len(args) == len(nodes) and not any(isinstance(x, ast.Starred) for x in nodes):
        return tuple(_evarg(a, x) for a, x in zip(args, nodes))
    return tuple(a if _known(a) else '?' for a in args)


def _text(n):
    if n is None:
        return ''
    try:
        return ' '.join(ast.unparse(n).split())
    except Exception:
        return '<?>'


def _mentions(text, full, root):
    import re
    return re.search(r'(?<![\w.])%s(?![\w])' % re.escape(root), text) is not None


def private_only(fname, node, info):
    """should_inline filter: interpret in place only private helpers (leading underscore, not dunder) and nested functions;
    public methods stay calls (they are the interface the rules are stated against)."""
    name = getattr(node, 'name', '')
    if info is not None and getattr(info, 'cls', None) is not None and re.match(r'_[A-Za-z]', info.cls.name):
        return True                 # any method of a private helper class (`_Name`) is an implementation detail
    return info is None or (name.startswith('_') and not name.startswith('__'))


def helpers_anywhere(fname, node, info):
    """should_inline filter: private helpers (as private_only) and the module-level functions of the package, wherever they live -
    the pure helpers that a method is split into."""
    if private_only(fname, node, info) or (info is not None and getattr(info, 'cls', None) is None):
        return True
    # static and class methods carry no instance state: name builders, parsers, factories
    return info is not None and any(d.split('.')[-1] in ('staticmethod', 'classmethod') for d in getattr(info, 'decorators', ()))


def events(trace, kind=None, name=None):
    """Filter a trace."""
    out = []
    for ev in trace:
        if kind is not None and ev[0] != kind:
            continue
        if name is not None and (len(ev) < 2 or ev[1] != name):
            continue
        out.append(ev)
    return out


def find_loops(fn_node, kind=(ast.For, ast.While)):
    return [n for n in M.walk_no_nested(fn_node) if isinstance(n, kind)]
