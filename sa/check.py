"""Entry point:  /venv/bin/python -m sa.check <ID> [--tier quick|thorough]"""
import argparse
import importlib
import os
import sys

from . import report


def main(argv=None):
    ap = argparse.ArgumentParser()
    ap.add_argument('prop')
    ap.add_argument('--tier', default=os.environ.get('VERIF_TIER') or 'quick',
                    choices=['quick', 'thorough'])
    a = ap.parse_args(argv)
    prop = a.prop.upper()
    try:
        mod = importlib.import_module('sa.props.%s' % prop.lower())
    except ImportError as e:
        print('ANALYSIS-ERROR property=%s no checker module (%s)' % (prop, e))
        return 2
    # a wall-clock budget: an interpretation that does not come to an end on this tree is "cannot decide" (exit 2), never a hang
    budget = int(os.environ.get('VERIF_BUDGET_S') or (900 if a.tier == 'quick' else 5400))

    def out_of_time(signum, frame):
        print('ANALYSIS-ERROR property=%s time budget of %d s exhausted: the interpretation of a scenario does not come to an end on this tree' % (prop, budget))
        sys.stdout.flush()
        os._exit(2)
    try:
        import signal
        signal.signal(signal.SIGALRM, out_of_time)
        signal.alarm(budget)
    except (ImportError, ValueError, AttributeError):
        pass
    return report.run(prop, a.tier, mod.check)


if __name__ == '__main__':
    sys.exit(main())
