"""Entry point:  /venv/bin/python -m sa.check <ID> [--tier quick|thorough]"""
import argparse
import importlib
import os
import sys

from . import report


def main(argv=None):
    ap = argparse.ArgumentParser()
    ap.add_argument('prop')
    ap.add_argument('--tier', default=os.environ.get('VERIF_TIER') or 'quick',
                    choices=['quick', 'thorough'])
    a = ap.parse_args(argv)
    prop = a.prop.upper()
    try:
        mod = importlib.import_module('sa.props.%s' % prop.lower())
    except ImportError as e:
        print('ANALYSIS-ERROR property=%s no checker module (%s)' % (prop, e))
        return 2
    return report.run(prop, a.tier, mod.check)


if __name__ == '__main__':
    sys.exit(main())
