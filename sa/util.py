"""Helpers shared by the property checkers."""
import ast

from . import absint as A
from . import model as M
from .report import AnalysisError, need


def class_body_env(model, cls):
    """Abstractly execute the statements of a class body (assignments,
    subscript stores such as  tokenClasses[Token.CC_LETTER] = Letter) and
    return the resulting environment."""
    it = A.Interp(model=model, scope=cls, max_iter=1, exc_edges=False)
    it.h.keep = lambda ev: False
    stmts = [s for s in cls.node.body
             if not isinstance(s, (ast.FunctionDef, ast.AsyncFunctionDef, ast.ClassDef))
             and not (isinstance(s, ast.Expr) and isinstance(s.value, ast.Constant))]
    outs = it.block(stmts, [A.State()])
    falls = outs.get('fall', [])
    need(len(falls) == 1, 'class body of %s is not straight-line' % cls.fullname)
    return falls[0][0].env


class SelfHooks(A.Hooks):
    """`self.X` resolves to class-level constants of `cls` (through the MRO)
    unless the analysed code assigned it."""

    def __init__(self, model, cls, body_env=None):
        self.model, self.cls = model, cls
        self.body_env = body_env or {}
        self.selfnames = ('self',)

    def lookup(self, interp, name, state):
        parts = name.split('.')
        if len(parts) == 2 and parts[0] in self.selfnames or \
           (len(parts) == 2 and parts[0] in ('type(self)', 'tself')):
            attr = parts[1]
            if attr in self.body_env:
                return self.body_env[attr]
            v = self.model.class_const(self.cls, attr)
            if not M.is_unknown(v):
                return v
        return None


def stmt_of(fn, pred):
    """First statement (any depth, not nested defs) of fn satisfying pred."""
    for n in M.walk_no_nested(fn.node):
        if isinstance(n, ast.stmt) and pred(n):
            return n
    return None


def find_all(fn, typ, pred=lambda n: True):
    return [n for n in M.walk_no_nested(fn.node) if isinstance(n, typ) and pred(n)]


def parent_map(root):
    pm = {}
    for n in ast.walk(root):
        for c in ast.iter_child_nodes(n):
            pm[c] = n
    return pm


def enclosing(pm, node, typ):
    n = pm.get(node)
    while n is not None and not isinstance(n, typ):
        n = pm.get(n)
    return n


def text(n):
    return A._text(n)


def aliases_of(fn, source_texts):
    """Local names assigned (anywhere in fn) from an expression whose text is
    in source_texts, transitively:  inEnv = type(self).inEnv."""
    names = set(source_texts)
    changed = True
    while changed:
        changed = False
        for n in M.walk_no_nested(fn.node):
            if isinstance(n, ast.Assign) and text(n.value) in names:
                for t in n.targets:
                    if isinstance(t, ast.Name) and t.id not in names:
                        names.add(t.id)
                        changed = True
    return names


def tex_name(model, cls):
    """TeX name of a macro class: its macroName constant or the class name."""
    v = model.class_const(cls, 'macroName')
    if isinstance(v, str):
        return v
    return cls.name


def macro_classes(model):
    """All classes of the package that derive from plasTeX.Macro."""
    base = model.cls('plasTeX', 'Macro')
    return model.subclasses(base)
