"""Engine A: static model of the repository (modules, imports, classes, MRO,
class-level constants, method resolution).  Pure ast; nothing is imported."""
import ast
import os
import warnings

warnings.filterwarnings('ignore', category=SyntaxWarning)

from .report import AnalysisError

_CACHE = {}


class Unknown:
    """Result of constant evaluation that could not be folded."""
    def __init__(self, why=''):
        self.why = why

    def __repr__(self):
        return '<unknown %s>' % self.why


UNKNOWN = Unknown()


def is_unknown(v):
    return isinstance(v, Unknown)


class ModuleInfo:
    kind = 'module'

    def __init__(self, name, path, tree, source):
        self.name, self.path, self.tree, self.source = name, path, tree, source
        self.qualname = ''
        self.fullname = name
        self.classes = {}      # top-level name -> ClassInfo
        self.functions = {}    # top-level name -> FunctionInfo
        self.assigns = {}      # top-level name -> list of value exprs
        self.imports = {}      # local name -> ('module', modname) | ('from', modname, attr)
        self.star_imports = []  # modname list
        self.is_package = os.path.basename(path) == '__init__.py'

    def __repr__(self):
        return '<module %s>' % self.name


class ClassInfo:
    kind = 'class'

    def __init__(self, module, qualname, node, outer=None):
        self.module, self.qualname, self.node, self.outer = module, qualname, node, outer
        self.name = node.name
        self.path = module.path
        self.fullname = module.name + '.' + qualname
        self.methods = {}     # name -> FunctionInfo
        self.assigns = {}     # name -> list of value expr (in order)
        self.nested = {}      # name -> ClassInfo
        self.properties = {}  # name -> {'get': FunctionInfo, 'set': FunctionInfo}
        self._mro = None
        self.bases = None     # resolved lazily: list of ClassInfo | External

    def __repr__(self):
        return '<class %s>' % self.fullname


class External:
    """A base class / object defined outside the repository."""
    kind = 'external'

    def __init__(self, name):
        self.name = self.qualname = self.fullname = name
        self.methods, self.assigns, self.nested, self.properties = {}, {}, {}, {}

    def __repr__(self):
        return '<external %s>' % self.name

    def __eq__(self, other):
        return isinstance(other, External) and other.name == self.name

    def __hash__(self):
        return hash(('ext', self.name))


class FunctionInfo:
    kind = 'function'

    def __init__(self, module, qualname, node, cls=None):
        self.module, self.qualname, self.node, self.cls = module, qualname, node, cls
        self.name = node.name
        self.path = module.path
        self.fullname = module.name + '.' + qualname
        self.decorators = [ast.unparse(d) for d in node.decorator_list]

    def __repr__(self):
        return '<function %s>' % self.fullname


def _module_name(root, path):
    rel = os.path.relpath(path, root)
    parts = rel[:-3].split(os.sep)
    if parts[-1] == '__init__':
        parts = parts[:-1]
    return '.'.join(parts)


class Model:
    def __init__(self, root, package='plasTeX'):
        self.root = root
        self.package = package
        self.modules = {}
        self.by_path = {}
        pk = os.path.join(root, package)
        if not os.path.isdir(pk):
            raise AnalysisError('package directory %s not found' % pk)
        for dirpath, dirnames, filenames in os.walk(pk):
            dirnames[:] = sorted(d for d in dirnames if d != '__pycache__')
            for fn in sorted(filenames):
                if not fn.endswith('.py'):
                    continue
                path = os.path.join(dirpath, fn)
                with open(path, encoding='utf-8') as fh:
                    src = fh.read()
                try:
                    tree = ast.parse(src, filename=path)
                except SyntaxError as e:
                    raise AnalysisError('syntax error in %s: %s' % (path, e))
                name = _module_name(root, path)
                mod = ModuleInfo(name, path, tree, src)
                self.modules[name] = mod
                self.by_path[os.path.relpath(path, root)] = mod
        for mod in self.modules.values():
            self._index_module(mod)
        self.all_classes = []
        for mod in self.modules.values():
            for c in mod.classes.values():
                self._collect(c)

    def _collect(self, c):
        self.all_classes.append(c)
        for n in c.nested.values():
            self._collect(n)

    # -- indexing ---------------------------------------------------------
    def _toplevel_stmts(self, body):
        """Yield statements of a module/class body, descending into if/try/
        with blocks (conditional definitions)."""
        for st in body:
            yield st
            if isinstance(st, ast.If):
                yield from self._toplevel_stmts(st.body)
                yield from self._toplevel_stmts(st.orelse)
            elif isinstance(st, ast.Try):
                yield from self._toplevel_stmts(st.body)
                for h in st.handlers:
                    yield from self._toplevel_stmts(h.body)
                yield from self._toplevel_stmts(st.orelse)
                yield from self._toplevel_stmts(st.finalbody)
            elif isinstance(st, ast.With):
                yield from self._toplevel_stmts(st.body)

    def _index_module(self, mod):
        for st in self._toplevel_stmts(mod.tree.body):
            if isinstance(st, ast.ClassDef):
                mod.classes[st.name] = self._index_class(mod, st, st.name, None)
            elif isinstance(st, (ast.FunctionDef, ast.AsyncFunctionDef)):
                mod.functions[st.name] = FunctionInfo(mod, st.name, st)
            elif isinstance(st, ast.Assign):
                for t in st.targets:
                    for n, e in _target_bindings(t, st.value):
                        mod.assigns.setdefault(n, []).append(e)
            elif isinstance(st, ast.AnnAssign) and isinstance(st.target, ast.Name) and st.value is not None:
                mod.assigns.setdefault(st.target.id, []).append(st.value)
            elif isinstance(st, ast.Import):
                for a in st.names:
                    if a.asname:
                        mod.imports[a.asname] = ('module', a.name)
                    else:
                        top = a.name.split('.')[0]
                        mod.imports[top] = ('module', top)
            elif isinstance(st, ast.ImportFrom):
                base = self._abs_from(mod, st)
                for a in st.names:
                    if a.name == '*':
                        mod.star_imports.append(base)
                    else:
                        mod.imports[a.asname or a.name] = ('from', base, a.name)

    def _abs_from(self, mod, st):
        if st.level == 0:
            return st.module or ''
        parts = mod.name.split('.')
        if not mod.is_package:
            parts = parts[:-1]
        if st.level > 1:
            parts = parts[:-(st.level - 1)]
        if st.module:
            parts = parts + st.module.split('.')
        return '.'.join(parts)

    def _index_class(self, mod, node, qualname, outer):
        c = ClassInfo(mod, qualname, node, outer)
        for st in self._toplevel_stmts(node.body):
            if isinstance(st, (ast.FunctionDef, ast.AsyncFunctionDef)):
                f = FunctionInfo(mod, qualname + '.' + st.name, st, c)
                decs = f.decorators
                if 'property' in decs or any(d.split('.')[-1] == 'cached_property' for d in decs):
                    c.properties.setdefault(st.name, {})['get'] = f
                    c.methods.setdefault(st.name, f)
                elif any(d.endswith('.setter') for d in decs):
                    c.properties.setdefault(st.name, {})['set'] = f
                elif any(d.endswith('.deleter') for d in decs):
                    c.properties.setdefault(st.name, {})['del'] = f
                else:
                    c.methods[st.name] = f
            elif isinstance(st, ast.ClassDef):
                c.nested[st.name] = self._index_class(mod, st, qualname + '.' + st.name, c)
            elif isinstance(st, ast.Assign):
                for t in st.targets:
                    for n, e in _target_bindings(t, st.value):
                        c.assigns.setdefault(n, []).append(e)
            elif isinstance(st, ast.AnnAssign) and isinstance(st.target, ast.Name) and st.value is not None:
                c.assigns.setdefault(st.target.id, []).append(st.value)
        return c

    # -- lookup -----------------------------------------------------------
    def module(self, name):
        m = self.modules.get(name)
        if m is None:
            raise AnalysisError('anchor module %s not found' % name)
        return m

    def file(self, relpath):
        m = self.by_path.get(relpath)
        if m is None:
            raise AnalysisError('anchor file %s not found' % relpath)
        return m

    def cls(self, modname, qualname):
        m = self.module(modname)
        parts = qualname.split('.')
        c = m.classes.get(parts[0])
        if c is None:
            r = self.resolve_in_module(m, parts[0])        # defined in another module and imported here under this name
            c = r if isinstance(r, ClassInfo) else None
        for p in parts[1:]:
            if c is None:
                break
            c = c.nested.get(p)
        if c is None:
            raise AnalysisError('anchor class %s.%s not found' % (modname, qualname))
        return c

    def func(self, modname, qualname):
        """Function or method by qualified name (properties: getter)."""
        m = self.module(modname)
        parts = qualname.split('.')
        if len(parts) == 1:
            f = m.functions.get(parts[0])
            if f is None:
                r = self.resolve_in_module(m, parts[0])    # defined in another module and imported here under this name
                f = r if isinstance(r, FunctionInfo) else None
        else:
            try:
                c = self.cls(modname, '.'.join(parts[:-1]))
            except AnalysisError:
                c = None
            f = None
            if c is not None:
                f = c.methods.get(parts[-1])
                if f is None and parts[-1] in c.properties:
                    f = c.properties[parts[-1]].get('get')
        if f is None:
            raise AnalysisError('anchor function %s.%s not found' % (modname, qualname))
        return f

    def func_or_none(self, modname, qualname):
        try:
            return self.func(modname if isinstance(modname, str) else modname.name, qualname)
        except AnalysisError:
            return None

    def resolve_in_module(self, mod, name, _seen=None):
        """Resolve a global name of `mod` to ModuleInfo/ClassInfo/FunctionInfo,
        ('assign', mod, exprs) or External."""
        _seen = _seen or set()
        if (mod.name, name) in _seen:
            return None
        _seen.add((mod.name, name))
        if name in mod.classes:
            return mod.classes[name]
        if name in mod.functions:
            return mod.functions[name]
        if name in mod.assigns:
            return ('assign', mod, mod.assigns[name])
        if name in mod.imports:
            imp = mod.imports[name]
            if imp[0] == 'module':
                return self.modules.get(imp[1]) or External(imp[1])
            _, base, attr = imp
            sub = self.modules.get(base + '.' + attr)
            bm = self.modules.get(base)
            if bm is not None:
                r = self.resolve_in_module(bm, attr, _seen)
                if r is not None:
                    return r
            if sub is not None:
                return sub
            return External(base + '.' + attr)
        for sm in mod.star_imports:
            bm = self.modules.get(sm)
            if bm is not None:
                r = self.resolve_in_module(bm, name, _seen)
                if r is not None:
                    return r
        return None

    def resolve_expr(self, scope, expr):
        """Resolve a Name/Attribute expression used in `scope` (ClassInfo,
        FunctionInfo or ModuleInfo) to a model object, or None."""
        if isinstance(expr, ast.Name):
            return self.resolve_name(scope, expr.id)
        if isinstance(expr, ast.Attribute):
            base = self.resolve_expr(scope, expr.value)
            return self.getattr_static(base, expr.attr)
        if isinstance(expr, ast.Subscript):
            # Generic[...] style bases: resolve the value
            return self.resolve_expr(scope, expr.value)
        return None

    def resolve_name(self, scope, name):
        s = scope
        # class body scopes (only for code directly in a class body, but
        # nested classes are commonly referenced this way too)
        while s is not None and not isinstance(s, ModuleInfo):
            if isinstance(s, ClassInfo):
                if name in s.nested:
                    return s.nested[name]
                if name in s.methods:
                    return s.methods[name]
                if name in s.assigns:
                    return ('assign', s, s.assigns[name])
                s = s.outer if s.outer is not None else s.module
            elif isinstance(s, FunctionInfo):
                s = s.module   # methods do not see the class scope
            else:
                break
        if isinstance(s, ModuleInfo):
            r = self.resolve_in_module(s, name)
            if r is not None:
                return r
        if name in _BUILTINS:
            return External(name)
        return None

    def getattr_static(self, base, attr):
        if base is None:
            return None
        if isinstance(base, ModuleInfo):
            r = self.resolve_in_module(base, attr)
            if r is None:
                sub = self.modules.get(base.name + '.' + attr)
                if sub is not None:
                    return sub
            return r
        if isinstance(base, ClassInfo):
            for c in self.mro(base):
                if isinstance(c, External):
                    continue
                if attr in c.nested:
                    return c.nested[attr]
                if attr in c.methods:
                    return c.methods[attr]
                if attr in c.assigns:
                    return ('assign', c, c.assigns[attr])
            return None
        if isinstance(base, External):
            return External(base.name + '.' + attr)
        if isinstance(base, tuple) and base[0] == 'assign':
            # alias: X = Y  -> follow
            _, scope, exprs = base
            tgt = self.resolve_expr(scope, exprs[-1])
            if tgt is not None and tgt is not base:
                return self.getattr_static(tgt, attr)
        return None

    # -- classes -----------------------------------------------------------
    def bases(self, c):
        if c.bases is None:
            out = []
            for b in c.node.bases:
                r = self.resolve_expr(c.outer or c.module, b)
                if isinstance(r, tuple) and r[0] == 'assign':
                    r2 = self.resolve_expr(r[1], r[2][-1])
                    r = r2 if isinstance(r2, (ClassInfo, External)) else None
                if isinstance(r, ClassInfo):
                    out.append(r)
                elif isinstance(r, External):
                    out.append(r)
                else:
                    out.append(External(ast.unparse(b)))
            c.bases = out
        return c.bases

    def mro(self, c):
        if isinstance(c, External):
            return [c]
        if c._mro is None:
            c._mro = [c]   # recursion guard
            seqs = [list(self.mro(b)) for b in self.bases(c)] + [list(self.bases(c))]
            res = [c]
            seqs = [s for s in seqs if s]
            while seqs:
                for s in seqs:
                    cand = s[0]
                    if not any(cand in t[1:] for t in seqs):
                        break
                else:
                    raise AnalysisError('inconsistent MRO for %s' % c.fullname)
                res.append(cand)
                seqs = [[x for x in s if x != cand] for s in seqs]
                seqs = [s for s in seqs if s]
            c._mro = res
        return c._mro

    def is_subclass(self, c, base):
        return base in self.mro(c)

    def subclasses(self, base, strict=False):
        out = []
        for c in self.all_classes:
            if base in self.mro(c) and not (strict and c is base):
                out.append(c)
        return out

    def find_method(self, c, name):
        """Resolve method `name` on class `c` through the MRO."""
        for k in self.mro(c):
            if isinstance(k, External):
                continue
            if name in k.methods:
                return k.methods[name]
            if name in k.properties and 'get' in k.properties[name]:
                return k.properties[name]['get']
            if name in k.assigns:
                # alias such as  readNumber = readInteger
                e = k.assigns[name][-1]
                if isinstance(e, ast.Name) and e.id in k.methods:
                    return k.methods[e.id]
                if isinstance(e, ast.Name) and e.id in k.module.functions:
                    return k.module.functions[e.id]      # a module-level function used as a method:  getElementsByTagName = _getElementsByTagName
                if isinstance(e, (ast.Name, ast.Attribute)):
                    r = self.resolve_expr(k, e)           # ... the function may live in another module (imported, or module.function)
                    if isinstance(r, FunctionInfo):
                        return r
                if isinstance(e, ast.Call) and ast.unparse(e.func) == 'property' and e.args and isinstance(e.args[0], (ast.Name, ast.Attribute)):
                    r = self.resolve_expr(k, e.args[0])   # name = property(getter)
                    if isinstance(r, FunctionInfo):
                        return r
                return None
        return None

    def is_enum_class(self, c):
        return any(isinstance(k, External) and k.name.split('.')[-1] in ('Enum', 'IntEnum', 'StrEnum', 'Flag', 'IntFlag') for k in self.mro(c))

    def find_attr_class(self, c, name):
        """The class in c's MRO that defines attribute `name` (assign, method,
        property, nested class), or None."""
        for k in self.mro(c):
            if isinstance(k, External):
                continue
            if name in k.assigns or name in k.methods or name in k.properties or name in k.nested:
                return k
        return None

    def body_mutated(self, k):
        """Names of class `k` that its body changes after binding them (tokenClasses[i] = X, table.update(...), x += ...)."""
        if not hasattr(k, '_body_mutated'):
            out = set()

            def all_stmts(body):
                for st in body:
                    if isinstance(st, (ast.FunctionDef, ast.AsyncFunctionDef, ast.ClassDef)):
                        continue
                    yield st
                    for f in ('body', 'orelse', 'finalbody'):
                        sub = getattr(st, f, None)
                        if isinstance(sub, list) and sub and isinstance(sub[0], ast.stmt):
                            yield from all_stmts(sub)
                    for h in getattr(st, 'handlers', []) or []:
                        yield from all_stmts(h.body)
            for st in all_stmts(k.node.body):
                if isinstance(st, (ast.FunctionDef, ast.AsyncFunctionDef, ast.ClassDef)):
                    continue
                for t in (st.targets if isinstance(st, ast.Assign) else [st.target] if isinstance(st, (ast.AugAssign, ast.AnnAssign)) else []):
                    if isinstance(t, ast.Subscript) and isinstance(t.value, ast.Name):
                        out.add(t.value.id)
                    if isinstance(st, ast.AugAssign) and isinstance(t, ast.Name):
                        out.add(t.id)
                if isinstance(st, ast.Expr) and isinstance(st.value, ast.Call) and isinstance(st.value.func, ast.Attribute) \
                   and isinstance(st.value.func.value, ast.Name):
                    out.add(st.value.func.value.id)
                if isinstance(st, ast.Delete):
                    for t in st.targets:
                        if isinstance(t, ast.Subscript) and isinstance(t.value, ast.Name):
                            out.add(t.value.id)
            k._body_mutated = out
        return k._body_mutated

    def class_const(self, c, name, default=UNKNOWN):
        """Folded value of class-level attribute `name` resolved through the MRO."""
        for k in self.mro(c):
            if isinstance(k, External):
                continue
            if name in k.assigns:
                if name in self.body_mutated(k):
                    return Unknown('%s is changed in the class body of %s after it is bound' % (name, k.fullname))
                return self.eval_const(k, k.assigns[name][-1])
            if name in k.methods or name in k.properties:
                return Unknown('%s is a method/property on %s' % (name, k.fullname))
        return default

    # -- constant folding -----------------------------------------------------
    def eval_const(self, scope, expr, _depth=0, _locals=None):
        if _depth > 20:
            return Unknown('depth')
        ev = lambda e: self.eval_const(scope, e, _depth + 1, _locals)
        if isinstance(expr, ast.Constant):
            return expr.value
        if _locals and isinstance(expr, ast.Name) and expr.id in _locals:
            return _locals[expr.id]
        if isinstance(expr, (ast.ListComp, ast.SetComp, ast.DictComp, ast.GeneratorExp)):
            # a comprehension over constant iterables ({a: a + b for a, b in zip('[(', '])')})
            rows = [dict(_locals or {})]
            for g in expr.generators:
                if g.is_async:
                    return Unknown('async comprehension')
                nxt = []
                for env in rows:
                    it = self.eval_const(scope, g.iter, _depth + 1, env)
                    if is_unknown(it) or not isinstance(it, (list, tuple, str, range, dict, set, frozenset)) or isinstance(it, _StringLetters):
                        return Unknown('comprehension iterable')
                    for item in (sorted(it, key=repr) if isinstance(it, (set, frozenset)) else it):
                        e2 = dict(env)
                        if isinstance(g.target, ast.Name):
                            e2[g.target.id] = item
                        elif isinstance(g.target, (ast.Tuple, ast.List)) and all(isinstance(t, ast.Name) for t in g.target.elts) \
                                and isinstance(item, (tuple, list)) and len(item) == len(g.target.elts):
                            e2.update({t.id: x for t, x in zip(g.target.elts, item)})
                        else:
                            return Unknown('comprehension target')
                        keep = True
                        for cond in g.ifs:
                            c = self.eval_const(scope, cond, _depth + 1, e2)
                            if is_unknown(c):
                                return Unknown('comprehension condition')
                            if not c:
                                keep = False
                                break
                        if keep:
                            nxt.append(e2)
                    if len(nxt) > 5000:
                        return Unknown('comprehension too large')
                rows = nxt
            try:
                if isinstance(expr, ast.DictComp):
                    out = {}
                    for env in rows:
                        k, v = self.eval_const(scope, expr.key, _depth + 1, env), self.eval_const(scope, expr.value, _depth + 1, env)
                        if is_unknown(k) or is_unknown(v):
                            return Unknown('comprehension element')
                        out[k] = v
                    return out
                vals = [self.eval_const(scope, expr.elt, _depth + 1, env) for env in rows]
                if any(is_unknown(v) for v in vals):
                    return Unknown('comprehension element')
                return set(vals) if isinstance(expr, ast.SetComp) else vals
            except TypeError:
                return Unknown('unhashable')
        if isinstance(expr, (ast.List, ast.Tuple, ast.Set)):
            vals = [ev(e) for e in expr.elts]
            if any(is_unknown(v) for v in vals):
                return Unknown('element')
            return list(vals) if isinstance(expr, ast.List) else (
                tuple(vals) if isinstance(expr, ast.Tuple) else set(vals))
        if isinstance(expr, ast.Dict):
            out = {}
            for k, v in zip(expr.keys, expr.values):
                if k is None:
                    return Unknown('**')
                kk, vv = ev(k), ev(v)
                if is_unknown(kk) or is_unknown(vv):
                    return Unknown('dict item')
                try:
                    out[kk] = vv
                except TypeError:
                    return Unknown('unhashable')
            return out
        if isinstance(expr, ast.UnaryOp):
            v = ev(expr.operand)
            if is_unknown(v):
                return v
            try:
                if isinstance(expr.op, ast.USub):
                    return -v
                if isinstance(expr.op, ast.UAdd):
                    return +v
                if isinstance(expr.op, ast.Not):
                    return not v
                if isinstance(expr.op, ast.Invert):
                    return ~v
            except Exception:
                return Unknown('unary')
        if isinstance(expr, ast.BinOp):
            a, b = ev(expr.left), ev(expr.right)
            if is_unknown(a) or is_unknown(b):
                return Unknown('binop operand')
            try:
                return _BINOPS[type(expr.op)](a, b)
            except Exception as e:
                return Unknown('binop %s' % e)
        if isinstance(expr, ast.Subscript):
            v = ev(expr.value)
            if is_unknown(v):
                return v
            if isinstance(expr.slice, ast.Slice):
                lo = ev(expr.slice.lower) if expr.slice.lower else None
                hi = ev(expr.slice.upper) if expr.slice.upper else None
                st = ev(expr.slice.step) if expr.slice.step else None
                if any(is_unknown(x) for x in (lo, hi, st)):
                    return Unknown('slice')
                try:
                    return v[lo:hi:st]
                except Exception:
                    return Unknown('slice')
            i = ev(expr.slice)
            if is_unknown(i):
                return i
            try:
                return v[i]
            except Exception:
                return Unknown('index')
        if isinstance(expr, (ast.Name, ast.Attribute)):
            if isinstance(expr, ast.Attribute) and ast.unparse(expr) == 'sys.maxsize':
                return 2 ** 63 - 1
            r = self.resolve_expr(scope, expr)
            if isinstance(r, tuple) and r[0] == 'assign':
                if isinstance(r[1], ClassInfo) and isinstance(expr, ast.Attribute) and not expr.attr.startswith('_') and self.is_enum_class(r[1]):
                    return Unknown('a member of the enum class %s (an object, not the value written in the class body)' % r[1].name)
                return self.eval_const(r[1], r[2][-1], _depth + 1)
            if isinstance(expr, ast.Name) and expr.id in ('True', 'False', 'None'):
                return {'True': True, 'False': False, 'None': None}[expr.id]
            if isinstance(r, External) and r.name.startswith('string.') and r.name.split('.', 1)[1] in (
                    'digits', 'ascii_letters', 'ascii_lowercase', 'ascii_uppercase', 'hexdigits', 'octdigits', 'punctuation', 'whitespace'):
                import string as _string
                return getattr(_string, r.name.split('.', 1)[1])          # constants of the standard library
            if isinstance(r, (ClassInfo, FunctionInfo, ModuleInfo, External)):
                return r
            return Unknown('unresolved %s' % ast.unparse(expr))
        if isinstance(expr, ast.Call):
            # NewType identity:  CatCode(0) -> 0 ; int()/str() of constants
            f = self.resolve_expr(scope, expr.func)
            if isinstance(f, tuple) and f[0] == 'assign':
                v = f[2][-1]
                if isinstance(v, ast.Call) and ast.unparse(v.func).endswith('NewType') and len(expr.args) == 1:
                    return ev(expr.args[0])
            fn = ast.unparse(expr.func)
            if fn in ('int', 'str', 'float', 'bool', 'list', 'tuple', 'len', 'chr', 'ord', 'dict', 'set', 'frozenset', 'range', 'zip', 'enumerate',
                      'sorted', 'reversed', 'min', 'max', 'sum', 'abs') and not expr.keywords:
                args = [ev(a) for a in expr.args]
                if any(is_unknown(a) or isinstance(a, (ClassInfo, FunctionInfo, ModuleInfo, External, _StringLetters)) for a in args):
                    return Unknown('call arg')
                try:
                    return {'int': int, 'str': str, 'float': float, 'bool': bool, 'list': list,
                            'tuple': tuple, 'len': len, 'chr': chr, 'ord': ord, 'dict': dict,
                            'set': set, 'frozenset': frozenset, 'range': range, 'zip': lambda *a: list(zip(*a)),
                            'enumerate': lambda *a: list(enumerate(*a)), 'sorted': sorted, 'reversed': lambda a: list(reversed(a)),
                            'min': min, 'max': max, 'sum': sum, 'abs': abs}[fn](*args)
                except Exception:
                    return Unknown('call')
            if fn.endswith('stringletters') and not expr.args:
                return STRINGLETTERS
            return Unknown('call %s' % fn)
        if isinstance(expr, ast.Compare) and len(expr.ops) == 1:
            a, b = ev(expr.left), ev(expr.comparators[0])
            if is_unknown(a) or is_unknown(b):
                return Unknown('compare')
            try:
                return _CMPOPS[type(expr.ops[0])](a, b)
            except Exception:
                return Unknown('compare')
        if isinstance(expr, ast.BoolOp):
            vals = [ev(v) for v in expr.values]
            if any(is_unknown(v) for v in vals):
                return Unknown('boolop')
            if isinstance(expr.op, ast.And):
                r = True
                for v in vals:
                    r = v
                    if not v:
                        break
                return r
            r = False
            for v in vals:
                r = v
                if v:
                    break
            return r
        if isinstance(expr, ast.IfExp):
            t = ev(expr.test)
            if is_unknown(t):
                return t
            return ev(expr.body if t else expr.orelse)
        if isinstance(expr, ast.JoinedStr):
            parts = []
            for v in expr.values:
                if isinstance(v, ast.Constant):
                    parts.append(str(v.value))
                else:
                    return Unknown('fstring')
            return ''.join(parts)
        return Unknown(type(expr).__name__)


class _StringLetters(str):
    """Symbolic stand-in for encoding.stringletters() (all Unicode letters)."""
    def __repr__(self):
        return '<stringletters>'


STRINGLETTERS = _StringLetters('<<stringletters>>')

import operator as _op
_BINOPS = {ast.Add: _op.add, ast.Sub: _op.sub, ast.Mult: _op.mul, ast.Div: _op.truediv,
           ast.FloorDiv: _op.floordiv, ast.Mod: _op.mod, ast.Pow: _op.pow,
           ast.BitOr: _op.or_, ast.BitAnd: _op.and_, ast.BitXor: _op.xor,
           ast.LShift: _op.lshift, ast.RShift: _op.rshift}
_CMPOPS = {ast.Eq: _op.eq, ast.NotEq: _op.ne, ast.Lt: _op.lt, ast.LtE: _op.le,
           ast.Gt: _op.gt, ast.GtE: _op.ge, ast.Is: _op.is_, ast.IsNot: _op.is_not,
           ast.In: lambda a, b: a in b, ast.NotIn: lambda a, b: a not in b}
_BUILTINS = set(dir(__builtins__)) if not isinstance(__builtins__, dict) else set(__builtins__)


def _target_names(t):
    if isinstance(t, ast.Name):
        yield t.id
    elif isinstance(t, (ast.Tuple, ast.List)):
        for e in t.elts:
            yield from _target_names(e)


def _target_bindings(t, value):
    """(name, expression) pairs of an assignment `t = value`; unpacking gives each name its own element."""
    if isinstance(t, ast.Name):
        yield t.id, value
    elif isinstance(t, (ast.Tuple, ast.List)):
        if any(isinstance(e, ast.Starred) for e in t.elts):
            for n in _target_names(t):
                yield n, ast.copy_location(ast.Call(func=ast.Name(id='__unknown_unpacking__', ctx=ast.Load()), args=[], keywords=[]), value)
            return
        for i, e in enumerate(t.elts):
            if isinstance(value, (ast.Tuple, ast.List)) and len(value.elts) == len(t.elts) and not any(isinstance(x, ast.Starred) for x in value.elts):
                sub = value.elts[i]
            else:
                sub = ast.Subscript(value=value, slice=ast.Constant(value=i), ctx=ast.Load())
                ast.copy_location(sub, value)
                ast.copy_location(sub.slice, value)
            yield from _target_bindings(e, sub)


def load(root):
    key = os.path.abspath(root)
    if key not in _CACHE:
        _CACHE[key] = Model(key)
    return _CACHE[key]


# -- small ast helpers shared by the checkers ---------------------------------

def walk_no_nested(node):
    """ast.walk that does not descend into nested function/class definitions
    (lambda bodies are included)."""
    stack = list(ast.iter_child_nodes(node))
    while stack:
        n = stack.pop()
        yield n
        if isinstance(n, (ast.FunctionDef, ast.AsyncFunctionDef, ast.ClassDef)):
            continue
        stack.extend(ast.iter_child_nodes(n))


def calls_in(node):
    return [n for n in walk_no_nested(node) if isinstance(n, ast.Call)]


def call_name(call):
    """Dotted text of the callee ('self.ownerDocument.context.push')."""
    try:
        return ast.unparse(call.func)
    except Exception:
        return ''


def norm(node):
    """Normalised source text of a node (used in instance keys)."""
    s = ast.unparse(node)
    return ' '.join(s.split())[:120]
