"""Engine E: template analyser (jinja2 and ZPT templates of the renderers).

* split multi-template files the way PageTemplate.parseTemplates does
  (meta-data lines `(default-)?\\w+:`),
* parse jinja2 bodies with jinja2's own parser (static AST, nothing rendered),
* track the HTML tokenizer state across the literal template data so that every
  output expression is classified by *context* (element content, RCDATA,
  attribute value dq/sq/unquoted, tag position, raw text, comment),
* ZPT: html.parser based extraction of tal:content / tal:replace /
  tal:attributes expressions."""
import os
import re
from html.parser import HTMLParser

from .report import AnalysisError

META = re.compile(r'(default-)?\w+:')


class Tpl:
    def __init__(self, path, names, options, body, line):
        self.path, self.names, self.options, self.body, self.line = path, names, options, body, line

    @property
    def key(self):
        return '%s:%s' % (os.path.basename(self.path), (self.names or ['?'])[0])


def split_templates(path):
    """Mirror of PageTemplate.parseTemplates for multi-template files; a file
    whose extension does not end in 's' is one template named after the file."""
    base, ext = os.path.splitext(os.path.basename(path))
    with open(path, encoding='utf-8') as fh:
        lines = fh.readlines()
    if not ext.endswith('s'):
        return [Tpl(path, [base], {'name': base}, ''.join(lines), 1)]
    out = []
    template, options, defaults = [], {}, {}
    start = 1
    num = 0
    i = 0

    def flush(upto):
        nonlocal template, options, num
        if template:
            num += 1
            out.append(Tpl(path, options.get('name', '').split(), dict(options), ''.join(template), start))
        options = dict(defaults)
        template = []
    while i < len(lines):
        line = lines[i]
        if META.match(line):
            if template:
                flush(i)
            name, value = line.split(':', 1)
            name = name.strip()
            value = value.rstrip()
            while value.endswith('\\') and i + 1 < len(lines):
                i += 1
                value = value[:-1] + ' ' + lines[i].rstrip()
            value = re.sub(r'\s+', ' ', value.strip())
            if name.startswith('default-'):
                name = name.split('-')[-1]
                defaults[name] = value
                if name not in options or num == 0:
                    options[name] = value
            else:
                options[name] = value
            i += 1
            continue
        if template or line.strip():
            if not template:
                start = i + 1
            template.append(line)
        elif 'name' in options:
            if not template:
                start = i + 1
            template.append('')
        i += 1
    if template:
        flush(len(lines))
    return out


# ---------------------------------------------------------------------------
RCDATA_TAGS = {'title', 'textarea'}
RAWTEXT_TAGS = {'script', 'style'}


class HtmlState:
    """Minimal HTML tokenizer state machine over literal template text."""

    def __init__(self):
        self.state = 'DATA'
        self.tag = ''
        self.attr = ''
        self.closing = False
        self.buf = ''

    def copy(self):
        o = HtmlState()
        o.__dict__.update(self.__dict__)
        return o

    def sig(self):
        return (self.state, self.tag if self.state not in ('DATA',) else '', self.attr if self.state.startswith('ATTR') else '')

    def context(self):
        """Context description for an expression emitted in the current state."""
        if self.state == 'DATA':
            return ('content', None)
        if self.state.startswith('RCDATA'):
            return ('rcdata', self.tag)
        if self.state.startswith('RAWTEXT'):
            return ('rawtext', self.tag)
        if self.state == 'COMMENT':
            return ('comment', None)
        if self.state in ('ATTR_DQ', 'ATTR_SQ'):
            return ('attr-quoted', '%s@%s' % (self.tag, self.attr))
        if self.state in ('ATTR_UQ', 'AFTER_EQ'):
            return ('attr-unquoted', '%s@%s' % (self.tag, self.attr))
        return ('tag', self.tag)

    def expr(self):
        """An expression is emitted here: it may start an unquoted value."""
        if self.state == 'AFTER_EQ':
            self.state = 'ATTR_UQ'
        elif self.state == 'TAGNAME':
            pass

    def _close_tag(self):
        t = self.tag.lower()
        if not self.closing and t in RCDATA_TAGS:
            self.state = 'RCDATA'
        elif not self.closing and t in RAWTEXT_TAGS:
            self.state = 'RAWTEXT'
        else:
            self.state = 'DATA'

    def feed(self, text):
        i = 0
        n = len(text)
        while i < n:
            c = text[i]
            st = self.state
            if st == 'DATA':
                if text.startswith('<!--', i):
                    self.state = 'COMMENT'
                    i += 4
                    continue
                if c == '<' and i + 1 < n and (text[i + 1].isalpha() or text[i + 1] == '/'):
                    self.state = 'TAGNAME'
                    self.tag = ''
                    self.closing = text[i + 1] == '/'
                    i += 2 if self.closing else 1
                    continue
                if c == '<' and i + 1 == n:
                    # '<' at the very end of a literal chunk: the tag name is an expression
                    self.state = 'TAGNAME'
                    self.tag = ''
                    self.closing = False
            elif st == 'COMMENT':
                if text.startswith('-->', i):
                    self.state = 'DATA'
                    i += 3
                    continue
            elif st in ('RCDATA', 'RAWTEXT'):
                if text[i:i + 2 + len(self.tag)].lower() == '</' + self.tag.lower():
                    self.state = 'TAGNAME'
                    self.closing = True
                    i += 2
                    self.tag = ''
                    continue
            elif st == 'TAGNAME':
                if c.isspace():
                    self.state = 'TAG'
                elif c == '>':
                    self._close_tag()
                elif c == '/':
                    pass
                else:
                    self.tag += c
            elif st == 'TAG':
                if c == '>':
                    self._close_tag()
                elif c.isspace() or c == '/':
                    pass
                else:
                    self.state = 'ATTRNAME'
                    self.attr = c
            elif st == 'ATTRNAME':
                if c == '=':
                    self.state = 'AFTER_EQ'
                elif c.isspace():
                    self.state = 'TAG'
                elif c == '>':
                    self._close_tag()
                else:
                    self.attr += c
            elif st == 'AFTER_EQ':
                if c == '"':
                    self.state = 'ATTR_DQ'
                elif c == "'":
                    self.state = 'ATTR_SQ'
                elif c.isspace():
                    pass
                elif c == '>':
                    self._close_tag()
                else:
                    self.state = 'ATTR_UQ'
            elif st == 'ATTR_DQ':
                if c == '"':
                    self.state = 'TAG'
            elif st == 'ATTR_SQ':
                if c == "'":
                    self.state = 'TAG'
            elif st == 'ATTR_UQ':
                if c.isspace():
                    self.state = 'TAG'
                elif c == '>':
                    self._close_tag()
            i += 1


class Occurrence:
    """One output expression of a template."""
    def __init__(self, tpl, node, ctx, detail, loopvars, line, guards=(), aliases=None):
        self.aliases = dict(aliases or {})
        self.tpl, self.node, self.ctx, self.detail, self.loopvars, self.line = tpl, node, ctx, detail, loopvars, line
        self.guards = tuple(guards)     # ((test text, polarity), ...) of the enclosing {% if %} arms

    def __repr__(self):
        return '<%s %s %s>' % (self.tpl.key, self.ctx, expr_text(self.node))


def expr_text(n, aliases=None, _depth=0):
    """Readable, normalised text of a jinja2 expression node.  `aliases` ({% set name = expr %}) are expanded."""
    from jinja2 import nodes as N
    if aliases and _depth < 6:
        rec = lambda x: expr_text(x, aliases, _depth)
    else:
        rec = None
    if isinstance(n, N.Name):
        if aliases and n.name in aliases and _depth < 6:
            return expr_text(aliases[n.name], aliases, _depth + 1)
        return n.name
    _et = lambda x: expr_text(x, aliases, _depth)
    if isinstance(n, N.Getattr):
        return '%s.%s' % (_et(n.node), n.attr)
    if isinstance(n, N.Getitem):
        return '%s[%s]' % (_et(n.node), _et(n.arg))
    if isinstance(n, N.Const):
        return repr(n.value)
    if isinstance(n, N.Filter):
        a = ','.join(_et(x) for x in n.args)
        return '%s|%s%s' % (_et(n.node) if n.node is not None else '', n.name, '(%s)' % a if a else '')
    if isinstance(n, N.Call):
        return '%s(%s)' % (_et(n.node), ','.join(_et(x) for x in n.args))
    if isinstance(n, N.CondExpr):
        return '(%s if %s else %s)' % (_et(n.expr1), _et(n.test), _et(n.expr2) if n.expr2 is not None else '')
    if isinstance(n, (N.Or, N.And)):
        return '(%s %s %s)' % (_et(n.left), 'or' if isinstance(n, N.Or) else 'and', _et(n.right))
    if isinstance(n, N.Concat):
        return '~'.join(_et(x) for x in n.nodes)
    if isinstance(n, N.Not):
        return 'not %s' % _et(n.node)
    if isinstance(n, N.Test):
        return '%s is %s' % (_et(n.node), n.name)
    if isinstance(n, (N.Add, N.Sub, N.Mul, N.Div, N.Mod)):
        return '(%s %s %s)' % (_et(n.left), n.operator, _et(n.right))
    if isinstance(n, N.Compare):
        return '%s %s' % (_et(n.expr), ' '.join('%s %s' % (o.op, _et(o.expr)) for o in n.ops))
    if isinstance(n, (N.List, N.Tuple)):
        return '[%s]' % ','.join(_et(x) for x in n.items)
    return type(n).__name__


def alternatives(n, aliases=None, _depth=0):
    """Texts of the values an output expression can take: both arms of a conditional expression / `or`, the default of |default."""
    from jinja2 import nodes as N
    if aliases and isinstance(n, N.Name) and n.name in aliases and _depth < 6:
        return alternatives(aliases[n.name], aliases, _depth + 1)
    if isinstance(n, N.CondExpr):
        return alternatives(n.expr1, aliases, _depth) + (alternatives(n.expr2, aliases, _depth) if n.expr2 is not None else [])
    if isinstance(n, N.Or):
        return alternatives(n.left, aliases, _depth) + alternatives(n.right, aliases, _depth)
    if isinstance(n, N.Filter) and n.name in ('default', 'd', 'e', 'escape', 'string', 'trim', 'safe'):
        out = alternatives(n.node, aliases, _depth) if n.node is not None else []
        if n.name in ('default', 'd'):
            for a in n.args:
                out += alternatives(a, aliases, _depth)
        return out
    if isinstance(n, N.Getattr) and aliases:
        # attribute of an aliased / conditional value: distribute
        inner = alternatives(n.node, aliases, _depth)
        return ['%s.%s' % (i.strip('()') if i.startswith('(') and ' if ' not in i else i, n.attr) for i in inner]
    return [expr_text(n, aliases)]


_ENV = None


def jinja_env():
    global _ENV
    if _ENV is None:
        try:
            from jinja2 import Environment
        except ImportError:
            raise AnalysisError('jinja2 (part of the repository\'s own environment) is not importable')
        _ENV = Environment(trim_blocks=True, lstrip_blocks=True)
    return _ENV


def analyse_jinja(tpl):
    """Returns (occurrences, final HtmlState).  Raises AnalysisError when the
    two arms of a conditional leave the tokenizer in different states."""
    from jinja2 import nodes as N
    import jinja2.exceptions
    try:
        ast_ = jinja_env().parse(tpl.body)
    except jinja2.exceptions.TemplateSyntaxError as e:
        raise SyntaxError('%s: %s (line %s)' % (tpl.key, e.message, e.lineno))
    occ = []

    aliases = {}

    def walk(nodes, st, loopvars, guards=()):
        for n in nodes:
            if isinstance(n, N.Output):
                for x in n.nodes:
                    if isinstance(x, N.TemplateData):
                        st.feed(x.data)
                    else:
                        st.expr()
                        occ.append(Occurrence(tpl, x, st.context()[0], st.context()[1], dict(loopvars), tpl.line + (x.lineno or 1) - 1, guards, aliases))
            elif isinstance(n, N.If):
                branches = [n.body] + [e.body for e in n.elif_] + ([n.else_] if n.else_ else [[]])
                tests = [n.test] + [e.test for e in n.elif_]
                ends = []
                for bi, b in enumerate(branches):
                    g = guards + tuple((expr_text(t, aliases), False) for t in tests[:bi])
                    if bi < len(tests):
                        g = g + ((expr_text(tests[bi], aliases), True),)
                    s2 = st.copy()
                    walk(b, s2, loopvars, g)
                    ends.append(s2)
                sigs = {e.sig() for e in ends}
                if len(sigs) > 1:
                    raise AnalysisError('%s line %s: the arms of {%% if %%} leave the HTML tokenizer in different states %s'
                                        % (tpl.key, tpl.line + n.lineno - 1, sorted(map(str, sigs))))
                st.__dict__.update(ends[0].__dict__)
            elif isinstance(n, N.For):
                lv = dict(loopvars)
                names = [t.name for t in ([n.target] if isinstance(n.target, N.Name) else getattr(n.target, 'items', [])) if isinstance(t, N.Name)]
                for nm in names:
                    lv[nm] = n.iter
                s2 = st.copy()
                walk(n.body, s2, lv, guards)
                if s2.sig() != st.sig():
                    raise AnalysisError('%s line %s: a {%% for %%} body changes the HTML tokenizer state' % (tpl.key, tpl.line + n.lineno - 1))
                if n.else_:
                    s3 = st.copy()
                    walk(n.else_, s3, loopvars, guards)
            elif isinstance(n, (N.Macro, N.CallBlock, N.FilterBlock, N.With, N.Scope, N.Block, N.AssignBlock)):
                walk(n.body, st if not isinstance(n, (N.Macro, N.AssignBlock)) else HtmlState(), loopvars, guards)
            elif isinstance(n, N.Assign) and isinstance(n.target, N.Name):
                aliases[n.target.name] = n.node
            elif isinstance(n, (N.Assign, N.ExprStmt, N.Import, N.FromImport, N.Include, N.Extends, N.Continue if hasattr(N, 'Continue') else N.Assign)):
                pass
    st = HtmlState()
    walk(ast_.body, st, {})
    return occ, st


def filters_of(n):
    """(innermost expression, [filter names outermost last])"""
    from jinja2 import nodes as N
    fl = []
    while isinstance(n, N.Filter):
        fl.append(n.name)
        n = n.node
    fl.reverse()
    return n, fl


# ---------------------------------------------------------------------------
class ZptOccurrence:
    def __init__(self, tpl, tag, kind, attr, expr, structure, line):
        self.tpl, self.tag, self.kind, self.attr, self.expr, self.structure, self.line = tpl, tag, kind, attr, expr, structure, line

    def __repr__(self):
        return '<%s %s %s %s%s>' % (self.tpl.key, self.tag, self.kind, 'structure ' if self.structure else '', self.expr)


class _Zpt(HTMLParser):
    def __init__(self, tpl):
        HTMLParser.__init__(self, convert_charrefs=False)
        self.tpl = tpl
        self.occ = []
        self.defs, self.repeats = {}, {}

    def handle_starttag(self, tag, attrs):
        line = self.tpl.line + self.getpos()[0] - 1
        # names introduced by tal:define / tal:repeat (template-wide: TAL names are not reused with another meaning here)
        for k, v in attrs:
            if v is None:
                continue
            if k == 'tal:define':
                for part in re.split(r'(?<!;);(?!;)', v):
                    bits = part.strip().split(None, 2)
                    if len(bits) >= 2 and bits[0] in ('global', 'local'):
                        bits = bits[1:]
                    if len(bits) >= 2:
                        self.defs[bits[0]] = ' '.join(bits[1:]).strip()
            elif k == 'tal:repeat':
                bits = v.strip().split(None, 1)
                if len(bits) == 2:
                    self.repeats[bits[0]] = bits[1].strip()
        for k, v in attrs:
            if v is None:
                continue
            if k in ('tal:content', 'tal:replace'):
                v2 = v.strip()
                structure = v2.startswith('structure ')
                if structure or v2.startswith('text '):
                    v2 = v2.split(' ', 1)[1].strip()
                self.occ.append(ZptOccurrence(self.tpl, tag, k[4:], None, v2, structure, line))
            elif k == 'tal:attributes':
                for part in re.split(r'(?<!;);(?!;)', v):
                    part = part.strip()
                    if not part:
                        continue
                    bits = part.split(None, 1)
                    if len(bits) == 2:
                        self.occ.append(ZptOccurrence(self.tpl, tag, 'attribute', bits[0], bits[1].strip(), False, line))

    handle_startendtag = handle_starttag


def zpt_expand(expr, defs, depth=0):
    """A TAL path expression with names introduced by tal:define replaced by what they stand for."""
    if depth > 4 or not expr or expr.split(':', 1)[0] in ('string', 'python', 'not', 'exists', 'nocall'):
        return expr
    head, sep, rest = expr.partition('/')
    if head in defs:
        base = zpt_expand(defs[head], defs, depth + 1)
        return base + (sep + rest if sep else '')
    return expr


def analyse_zpt(tpl):
    p = _Zpt(tpl)
    p.feed(tpl.body)
    p.close()
    for o in p.occ:
        o.defs, o.repeats = p.defs, p.repeats
        o.raw = o.expr
        o.expr = ' | '.join(zpt_expand(x.strip(), p.defs) for x in o.expr.split('|')) if o.expr else o.expr
    return p.occ


def template_files(root, sub):
    out = []
    base = os.path.join(root, 'plasTeX', 'Renderers', sub)
    if not os.path.isdir(base):
        raise AnalysisError('renderer directory %s not found' % base)
    for dirpath, dirnames, filenames in os.walk(base):
        dirnames.sort()
        for fn in sorted(filenames):
            if re.search(r'\.(jinja2s?|zpts?|html?|xml)$', fn) and not fn.startswith('.'):
                if 'sources' in dirpath.split(os.sep) or 'js' in dirpath.split(os.sep):
                    continue
                out.append(os.path.join(dirpath, fn))
    return out
