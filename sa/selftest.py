"""Checker self-test (thorough tier): every committed seeded change of the
property (/verif/seeded/<ID>-k/patch.diff: a realistic edit that breaks the
property while compiling and passing the test suite) is applied to a scratch
copy of /repo/plasTeX outside /repo and /verif, and the property's quick check
must report a VIOLATION on it.  Nothing is executed from the scratch copy: the
check analyses its source like it analyses /repo.  The copy is removed at once."""
import glob
import os
import shutil
import subprocess
import sys
import tempfile
from concurrent.futures import ThreadPoolExecutor

from .report import VERIF, REPO


def _one(prop, seed_dir):
    name = os.path.basename(seed_dir.rstrip('/'))
    tmp = tempfile.mkdtemp(prefix='sa-selftest-')
    try:
        shutil.copytree(os.path.join(REPO, 'plasTeX'), os.path.join(tmp, 'plasTeX'),
                        ignore=shutil.ignore_patterns('__pycache__', '*.pyc'))
        a = subprocess.run(['git', 'apply', '--whitespace=nowarn', os.path.join(seed_dir, 'patch.diff')], cwd=tmp, capture_output=True, text=True)
        if a.returncode != 0:
            return {'seed': name, 'status': 'STALE', 'detail': 'patch no longer applies to the current tree'}
        env = dict(os.environ, VERIF_REPO=tmp, VERIF_SUBRUN='1', VERIF_SUBRUN_OUT=os.path.join(tmp, 'out'), VERIF_TIER='quick')
        r = subprocess.run([sys.executable, '-m', 'sa.check', prop, '--tier', 'quick'], cwd=VERIF, env=env, capture_output=True, text=True, timeout=900)
        fails = [l for l in r.stdout.splitlines() if l.startswith('FAIL')]
        if r.returncode == 1 and fails:
            return {'seed': name, 'status': 'DETECTED', 'detail': fails[0][:200]}
        if r.returncode == 2:
            return {'seed': name, 'status': 'ANALYSIS-ERROR', 'detail': r.stdout.strip().splitlines()[-1][:200] if r.stdout.strip() else ''}
        return {'seed': name, 'status': 'MISSED', 'detail': 'exit %d' % r.returncode}
    finally:
        shutil.rmtree(tmp, ignore_errors=True)


def run_for(prop):
    seeds = sorted(glob.glob(os.path.join(VERIF, 'seeded', '%s-*' % prop)))
    with ThreadPoolExecutor(max_workers=min(8, max(1, len(seeds)))) as ex:
        results = list(ex.map(lambda d: _one(prop, d), seeds))
    return {'seeds': len(seeds), 'detected': sum(1 for r in results if r['status'] == 'DETECTED'), 'results': results}
